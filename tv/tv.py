"""Translation validation driver (engine T): compile generated programs with the real compiler, execute the emitted
CLIF symbolically, and ask z3 whether any argument value separates it from the reference semantics.

What is compared is selected by `modes`:
  value   (C01/C02/C05/C09) the returned value, wherever the reference is defined
  trace   (C08)             the sequence of host calls with their arguments
  ledger  (C03)             every tracked host value released exactly once on every feasible path
  trap    (C10)             no feasible path reaches a trapping instruction with trapping operands
"""
import json, os, subprocess, sys, time
import z3
import clif
from clif import Ptr, FuncAddr, Unsupported, PathCut, Explorer, World, Path, Event, b2i8
import lang
from lang import INTS, FLOATS, is_int, is_float, EnumVal

_BUILD = os.environ.get("VERIF_BUILD") or os.path.join(os.path.dirname(os.path.dirname(os.path.abspath(__file__))), "build")
EXTRACT = os.path.join(_BUILD, "extract", "debug", "extract")


# ---------------------------------------------------------------------------- independent C-layout rule
def layout(ty, prog):
    """(size, align) by the documented rule (C representation; enums = u8 tag followed by the variant's fields)"""
    if is_int(ty):
        w = INTS[ty][0] // 8
        return w, w
    if ty == "bool":
        return 1, 1
    if ty in ("char", "f32"):
        return 4, 4
    if ty == "f64":
        return 8, 8
    if ty in ("unit", "Zst"):
        return 0, 1
    if ty == "Tracked":
        return 16, 8
    if ty == "String":
        return 16, 8
    if ty[0] == "list":
        return 8, 8
    if ty[0] == "rec":
        return struct_layout([t for _, t in prog.records[ty[1]]], prog)[:2]
    if ty[0] in ("enum", "opt", "verdict", "result"):
        size, align = 0, 1
        for _, fts in variants(ty, prog):
            s, a, _ = struct_layout(["u8"] + list(fts), prog)
            size, align = max(size, s), max(align, a)
        return (size + align - 1) // align * align, align
    raise ValueError(ty)


def struct_layout(tys, prog):
    off, align, offs = 0, 1, []
    for t in tys:
        s, a = layout(t, prog)
        off = (off + a - 1) // a * a
        offs.append(off)
        off += s
        align = max(align, a)
    return (off + align - 1) // align * align, align, offs


def variants(ty, prog):
    if ty[0] == "opt":
        return [("Some", [ty[1]]), ("None", [])]
    if ty[0] == "verdict":
        return [("Accept", [ty[1]]), ("Reject", [ty[2]])]
    if ty[0] == "result":
        return [("Ok", [ty[1]]), ("Err", [ty[2]])]
    return prog.enums[ty[1]]


def is_ref_type(ty, prog):
    """passed by pointer: records, enums, Tracked (unless zero-sized)"""
    if isinstance(ty, tuple) or ty in ("Tracked", "String"):
        return layout(ty, prog)[0] > 0
    return False


def scalar_to_clif(ty, v):
    if ty == "bool":
        return z3.If(v, z3.BitVecVal(1, 8), z3.BitVecVal(0, 8))
    return v


def write_value(path, ptr, ty, v, prog):
    """store a reference value at ptr using the independent layout (used for by-pointer arguments)"""
    if v is None and ty == "unit":
        return
    if is_int(ty) or ty == "char":
        path.store(ptr, v, v.size() // 8)
    elif ty == "bool":
        path.store(ptr, scalar_to_clif(ty, v), 1)
    elif is_float(ty):
        path.store(ptr, v, 4 if ty == "f32" else 8)
    elif ty[0] == "rec":
        _, _, offs = struct_layout([t for _, t in prog.records[ty[1]]], prog)
        for (f, t), o in zip(prog.records[ty[1]], offs):
            write_value(path, Ptr(ptr.region, ptr.off + o), t, v[f], prog)
    elif ty[0] in ("enum", "opt", "verdict", "result"):
        tag = v.tag if not isinstance(v.tag, int) else z3.BitVecVal(v.tag, 8)
        path.store(ptr, tag, 1)
        # symbolic tag: only single-payload-variant enums (Option) are passed in: write the payload of the variant that has one
        for i, (vn, fts) in enumerate(variants(ty, prog)):
            if v.payloads.get(i):
                _, _, offs = struct_layout(["u8"] + list(fts), prog)
                for t, o, x in zip(fts, offs[1:], v.payloads[i]):
                    write_value(path, Ptr(ptr.region, ptr.off + o), t, x, prog)
    else:
        raise Unsupported(f"argument type {ty}")


def value_differs(path, ty, clif_v, ref_v, prog, notes):
    """z3 Bool: the CLIF result (scalar term, or Ptr to the bytes) is NOT the reference value."""
    if ty == "unit":
        return z3.BoolVal(False)
    if isinstance(clif_v, Ptr) or is_ref_type(ty, prog):
        return z3.Not(mem_equals(path, clif_v, ty, ref_v, prog, notes))
    if ty == "bool":
        return clif_v != scalar_to_clif(ty, ref_v)
    if is_float(ty):
        return z3.Not(clif_v == ref_v)
    return clif_v != ref_v


def mem_equals(path, ptr, ty, v, prog, notes):
    if ty == "unit":
        return z3.BoolVal(True)
    if is_int(ty) or ty == "char":
        return path.load(ptr, INTS[ty][0] // 8 if is_int(ty) else 4) == v
    if ty == "bool":
        return path.load(ptr, 1) == scalar_to_clif(ty, v)
    if is_float(ty):
        bits = path.load(ptr, 4 if ty == "f32" else 8, as_float=True)
        return (bits if z3.is_fp(bits) else z3.fpBVToFP(bits, FLOATS[ty])) == v
    if ty == "Tracked":
        return path.load(Ptr(ptr.region, ptr.off + 8), 4) == v["val"]
    if ty[0] == "rec":
        _, _, offs = struct_layout([t for _, t in prog.records[ty[1]]], prog)
        return z3.And([mem_equals(path, Ptr(ptr.region, ptr.off + o), t, v[f], prog, notes)
                       for (f, t), o in zip(prog.records[ty[1]], offs)] or [z3.BoolVal(True)])
    if ty[0] in ("enum", "opt", "verdict", "result"):
        tag = path.load(ptr, 1)
        cases = []
        for i, (vn, fts) in enumerate(variants(ty, prog)):
            is_i = (v.tag == z3.BitVecVal(i, 8)) if not isinstance(v.tag, int) else z3.BoolVal(v.tag == i)
            if z3.is_false(z3.simplify(is_i)):
                continue
            conj = [is_i, tag == z3.BitVecVal(i, 8)]
            if fts:
                if v.payloads.get(i) is None:
                    continue
                _, _, offs = struct_layout(["u8"] + list(fts), prog)
                for t, o, x in zip(fts, offs[1:], v.payloads[i]):
                    conj.append(mem_equals(path, Ptr(ptr.region, ptr.off + o), t, x, prog, notes))
            cases.append(z3.And(conj))
        return z3.Or(cases) if cases else z3.BoolVal(False)
    raise Unsupported(f"result type {ty}")


# ---------------------------------------------------------------------------- host models (CLIF side)
class Ledger:
    def __init__(self):
        self.state = {}      # id -> 'live' | 'dropped' | 'moved'
        self.problems = []
        self.next = 1000

    def fresh(self):
        self.next += 1
        self.state[self.next] = "live"
        return self.next

    def use(self, i, what):
        if i is None:
            return False
        if self.state.get(i) != "live":
            self.problems.append(f"{what} of tracked value #{i} which is {self.state.get(i, 'unknown')}")
            return False
        return True


def tracked_id(path, ptr, what):
    reg = path.mem.get(ptr.region) if isinstance(ptr, Ptr) else None
    if reg is not None and all(b is None for b in reg[ptr.off:ptr.off + 8]):
        # the slot was never written on this path: the operation acts on uninitialised memory
        path.ledger.problems.append(f"{what} of a slot that was never initialised on this path ({ptr.region})")
        return None
    idv = z3.simplify(path.load(ptr, 8))
    if not z3.is_bv_value(idv):
        raise Unsupported(f"{what}: tracked id is not concrete on this path ({idv})")
    return idv.as_long()


from lang import norm_content


def content_equal(a, b):
    try:
        return lang.content_equal(a, b)
    except lang.StringShape:
        raise Unsupported("comparison of strings with symbolic parts of different shape")


def host_models():
    H = {}

    def emit(path, name, args):
        path.events.append(Event("host", name, [a for a in args[2:]]))
        return None

    def pure(path, name, args):
        path.events.append(Event("host", name, [args[2]]))
        v = args[2]
        if z3.is_fp(v):
            path.store(args[1], v, (v.sort().ebits() + v.sort().sbits()) // 8)
        else:
            path.store(args[1], v, v.size() // 8)
        return None

    for t in list(INTS) + ["f32", "f64", "bool", "char"]:
        H[f"emit_{t}"] = emit
        H[f"pure_{t}"] = pure
    H["emit7"] = emit

    def msub(path, name, args):
        # the four registered `msub` methods share their name; their operand widths tell them apart
        t = {32: "i32", 8: "u8", 64: "i64", 16: "u16"}[args[2].size()]
        path.events.append(Event("host", f"msub_{t}", [args[2], args[3]]))
        v = args[2] - args[3]
        path.store(args[1], v, v.size() // 8)
        return None

    H["msub"] = msub

    def opt_res_of(path, name, args):
        # registered functions that build an Option / Result in Rust: the out-pointer receives the C layout
        # (tag byte at 0, 4-byte payload at offset 4) of the value the Rust body computes
        x = args[2]
        path.events.append(Event("host", name, [x]))
        if name == "opt_of":
            tag = z3.If(x & 1 == 1, z3.BitVecVal(0, 8), z3.BitVecVal(1, 8))
            payload = x ^ 0x5A5A
        else:
            tag = z3.If(z3.ULT(x, 0x80000000), z3.BitVecVal(0, 8), z3.BitVecVal(1, 8))
            payload = z3.If(z3.ULT(x, 0x80000000), x + 7, -x)
        path.store(args[1], tag, 1)
        path.store(Ptr(args[1].region, args[1].off + 4), payload, 4)
        return None

    H["opt_of"] = H["res_of"] = opt_res_of

    def unit_param(path, name, args):
        # after_unit((), x) -> x ; around_unit(x, (), y) -> x - y : a `()` argument occupies no machine argument
        # the Rust `extern "C"` trampoline takes its arguments by position and ignores surplus ones
        want = 1 if name == "after_unit" else 2
        vals = list(args[2:2 + want])
        if len(vals) != want:
            raise Unsupported(f"{name}: {len(vals)} machine arguments after the out-pointer, the Rust function takes {want}")
        vals = [v if not isinstance(v, Ptr) else z3.BitVec(f"address_as_u32_{len(path.events)}", 32) for v in vals]
        vals = [z3.Extract(31, 0, v) if z3.is_bv(v) and v.size() > 32 else v for v in vals]
        path.events.append(Event("host", name, vals))
        v = vals[0] if name == "after_unit" else vals[0] - vals[1]
        path.store(args[1], v, 4)
        return None

    H["after_unit"] = H["around_unit"] = unit_param

    def after_zst(path, name, args):
        # Rust: fn after_zst(_z: Val<Zst>, x: u32) -> u32 { x }. The trampoline takes (out, pointer to z, x) by position: if the
        # generated code passes fewer machine arguments, x is whatever the next register holds
        vals = list(args[2:4])
        if len(vals) == 2 and z3.is_bv(vals[1]) and not isinstance(vals[1], Ptr):
            x = z3.Extract(31, 0, vals[1]) if vals[1].size() > 32 else vals[1]
        else:
            x = z3.BitVec(f"register_garbage_host_{len(path.events)}", 32)
        path.events.append(Event("host", name, [x]))
        path.store(args[1], x, 4)
        return None

    H["after_zst"] = after_zst

    def mk(path, name, args):
        path.events.append(Event("host", "mk", [args[2]]))
        i = path.ledger.fresh()
        path.events.append(Event("own", "create", [i]))
        path.store(args[1], z3.BitVecVal(i, 64), 8)
        path.store(Ptr(args[1].region, args[1].off + 8), args[2], 4)
        return None

    def eat(path, name, args):
        i = tracked_id(path, args[2], name)
        if i is None:
            path.events.append(Event("host", name, [z3.BitVecVal(0, 32)]))
            return None
        val = path.load(Ptr(args[2].region, args[2].off + 8), 4)
        path.events.append(Event("host", name, [val]))
        if path.ledger.use(i, f"passing to {name}"):
            path.ledger.state[i] = "moved"
        path.events.append(Event("own", "moved_to_host", [i]))
        if name == "peek":
            path.store(args[1], val, 4)
        return None

    H["mk"], H["eat"], H["peek"] = mk, eat, eat

    def clone_tracked(path, tyname, args):
        dst, srcp = args
        i = tracked_id(path, srcp, "clone")
        path.ledger.use(i, "clone")
        j = path.ledger.fresh()
        if i is None:
            path.store(dst, z3.BitVecVal(j, 64), 8)
            path.store(Ptr(dst.region, dst.off + 8), z3.BitVecVal(0, 32), 4)
            return None
        path.events.append(Event("own", "clone", [i, j]))
        path.store(dst, z3.BitVecVal(j, 64), 8)
        path.store(Ptr(dst.region, dst.off + 8), path.load(Ptr(srcp.region, srcp.off + 8), 4), 4)
        return None

    def drop_tracked(path, tyname, args):
        i = tracked_id(path, args[0], "drop")
        if path.ledger.use(i, "drop"):
            path.ledger.state[i] = "dropped"
        path.events.append(Event("own", "drop", [i]))
        return None

    def eq_tracked(path, tyname, args):
        i = tracked_id(path, args[0], "eq")
        j = tracked_id(path, args[1], "eq")
        if not (path.ledger.use(i, "eq") and path.ledger.use(j, "eq")) and (i is None or j is None):
            return z3.BitVecVal(0, 8)
        a = path.load(Ptr(args[0].region, args[0].off + 8), 4)
        b = path.load(Ptr(args[1].region, args[1].off + 8), 4)
        return z3.simplify(b2i8(a == b))

    H["@clone:Tracked"], H["@drop:Tracked"], H["@eq:Tracked"] = clone_tracked, drop_tracked, eq_tracked

    # ---- lists: a storage object shared by handles (the handle value is a unique id; clone = new handle to the same storage)
    def conc(v, what):
        v = z3.simplify(v)
        if not z3.is_bv_value(v):
            raise Unsupported(f"{what} is not concrete")
        return v.as_long()

    def handle_of(path, ptr, what, consume):
        h = conc(path.load(ptr, 8), f"list handle ({what})")
        st = path.lists["handles"].get(h)
        if st is None or st[1] != "live":
            path.ledger.problems.append(f"{what} through a list handle that is {st[1] if st else 'unknown'}")
            return None
        if consume:
            release(path, h)
        return path.lists["stores"][st[0]]

    def release(path, h):
        sid, state = path.lists["handles"][h]
        path.lists["handles"][h] = (sid, "dropped")
        store = path.lists["stores"][sid]
        store["handles"] -= 1
        path.events.append(Event("own", "drop_list_handle", [h]))
        if store["handles"] == 0:
            # last handle: every element is dropped through the vtable's drop function
            for e in store["elems"]:
                if isinstance(store["drop"], FuncAddr):
                    tmp = path.new_region("list_elem_drop", store["size"], init=e)
                    path.call(store["drop"].name, [Ptr(tmp, 0)], 1)
            store["elems"] = []

    def new_handle(path, sid):
        path.lists["next"] += 1
        h = path.lists["next"]
        path.lists["handles"][h] = (sid, "live")
        path.lists["stores"][sid]["handles"] += 1
        return h

    def list_new(path, name, args):
        vt = args[2]
        size = conc(path.load(vt, 8), "vtable size")
        align = conc(path.load(Ptr(vt.region, vt.off + 8), 8), "vtable align")
        clone = path.load(Ptr(vt.region, vt.off + 16), 8)
        drop = path.load(Ptr(vt.region, vt.off + 24), 8)
        sid = len(path.lists["stores"])
        path.lists["stores"].append({"size": size, "align": align, "clone": clone, "drop": drop, "elems": [], "handles": 0})
        h = new_handle(path, sid)
        path.store(args[1], z3.BitVecVal(h, 64), 8)
        path.events.append(Event("list", "new", [sid]))
        return None

    def list_push(path, name, args):
        store = handle_of(path, args[2], "push", consume=True)
        if store is None:
            return None
        elem = [path.mem[args[3].region][args[3].off + i] for i in range(store["size"])]
        store["elems"].append(list(elem))
        path.events.append(Event("list", "push", [len(store["elems"])]))
        return None

    def list_len(path, name, args):
        store = handle_of(path, args[2], "len", consume=True)
        n = len(store["elems"]) if store else 0
        path.store(args[1], z3.BitVecVal(n, 64), 8)
        return None

    def list_get(path, name, args):
        store = handle_of(path, args[2], "get", consume=True)
        out, idx = args[1], args[3]
        found = None
        if store is not None:
            for i in range(len(store["elems"])):
                if path.decide(z3.simplify(idx == z3.BitVecVal(i, 64)), f"list.get index {i}"):
                    found = i
                    break
        if found is None:
            path.store(out, z3.BitVecVal(1, 8), 1)
            return None
        off = (1 + store["align"] - 1) // store["align"] * store["align"]
        src = path.new_region("list_elem", store["size"], init=store["elems"][found])
        dst = Ptr(out.region, out.off + off)
        if isinstance(store["clone"], FuncAddr):
            path.call(store["clone"].name, [dst, Ptr(src, 0)], 1)
        else:
            path.copy(dst, Ptr(src, 0), store["size"])
        path.store(out, z3.BitVecVal(0, 8), 1)
        return None

    def clone_list(path, tyname, args):
        h = conc(path.load(args[1], 8), "list handle (clone)")
        st = path.lists["handles"].get(h)
        if st is None or st[1] != "live":
            path.ledger.problems.append(f"clone of a list handle that is {st[1] if st else 'unknown'}")
            return None
        h2 = new_handle(path, st[0])
        path.store(args[0], z3.BitVecVal(h2, 64), 8)
        return None

    def drop_list(path, tyname, args):
        reg = path.mem.get(args[0].region)
        if all(b is None for b in reg[args[0].off:args[0].off + 8]):
            path.ledger.problems.append(f"drop of a list slot that was never initialised on this path ({args[0].region})")
            return None
        h = conc(path.load(args[0], 8), "list handle (drop)")
        st = path.lists["handles"].get(h)
        if st is None or st[1] != "live":
            path.ledger.problems.append(f"drop of a list handle that is {st[1] if st else 'unknown'}")
            return None
        release(path, h)
        return None

    # ---- strings: ledger objects (same ids / states as tracked values) with a content made of literal text and
    # to_string(number) parts
    def new_string(path, out, content):
        i = path.ledger.fresh()
        path.strings[i] = content
        path.events.append(Event("own", "create_string", [i]))
        path.store(out, z3.BitVecVal(i, 64), 8)
        path.store(Ptr(out.region, out.off + 8), z3.BitVecVal(0x5354, 64), 8)
        return i

    def string_at(path, ptr, what, consume):
        i = tracked_id(path, ptr, what)
        if i is None or not path.ledger.use(i, what):
            return None
        if consume:
            path.ledger.state[i] = "moved"
        return path.strings.get(i)

    def init_string(path, tyname, args):
        out, data, ln = args
        n = conc(ln, "string length")
        raw = bytes(conc(path.load(Ptr(data.region, data.off + k), 1), "string data") for k in range(n))
        new_string(path, out, [raw.decode("utf-8")] if raw else [])
        return None

    def clone_string(path, tyname, args):
        c = string_at(path, args[1], "clone", consume=False)
        new_string(path, args[0], list(c) if c is not None else [])
        return None

    def drop_string(path, tyname, args):
        i = tracked_id(path, args[0], "drop")
        if path.ledger.use(i, "drop"):
            path.ledger.state[i] = "dropped"
        path.events.append(Event("own", "drop", [i]))
        return None

    def eq_string(path, tyname, args):
        a = string_at(path, args[0], "eq", consume=False)
        b = string_at(path, args[1], "eq", consume=False)
        if a is None or b is None:
            return z3.BitVecVal(0, 8)
        return z3.simplify(b2i8(content_equal(a, b)))

    def append(path, name, args):
        a = string_at(path, args[2], "append", consume=True)
        b = string_at(path, args[3], "append", consume=True)
        new_string(path, args[1], norm_content((a or []) + (b or [])))
        return None

    def to_string_string(path, name, args):
        a = string_at(path, args[2], "to_string", consume=True)
        new_string(path, args[1], list(a or []))
        return None

    def emit_str(path, name, args):
        a = string_at(path, args[2], name, consume=True)
        path.events.append(Event("host", name, [("str", tuple(a or []))]))
        if name == "pure_str":
            new_string(path, args[1], list(a or []))
        return None

    def to_string_num(ty):
        def model(path, name, args):
            v = args[2]
            if ty == "bool":
                v = z3.simplify(v != z3.BitVecVal(0, 8))
            new_string(path, args[1], [("num", ty, v)])
            return None
        return model

    H["@init_string"] = init_string
    H["@clone:String"], H["@drop:String"], H["@eq:String"] = clone_string, drop_string, eq_string
    H["append"], H["emit_str"], H["pure_str"] = append, emit_str, emit_str
    H["to_string:String"] = to_string_string
    for t in list(INTS) + ["bool"]:
        H[f"to_string:{t}"] = to_string_num(t)
    H["new"], H["push"], H["len"], H["get"] = list_new, list_push, list_len, list_get
    H["@clone:List"], H["@drop:List"] = clone_list, drop_list
    return H


# ---------------------------------------------------------------------------- compile through the real compiler
def dump_programs(paths, out_dir, batch=40):
    """extract dump; a crash of the extractor loses only the script it was working on"""
    for i in range(0, len(paths), batch):
        chunk = paths[i:i + batch]
        p = subprocess.run([EXTRACT, "dump", out_dir] + chunk, capture_output=True, text=True)
        if p.returncode != 0:
            for one in chunk:
                stem = os.path.splitext(os.path.basename(one))[0]
                if not os.path.exists(os.path.join(out_dir, stem + ".json")):
                    q = subprocess.run([EXTRACT, "dump", out_dir, one], capture_output=True, text=True)
                    if q.returncode != 0:
                        json.dump({"script": one, "compile": "crash", "rc": q.returncode, "stderr": q.stderr[-500:], "items": [],
                                   "data": {}, "symbols": []}, open(os.path.join(out_dir, stem + ".json"), "w"))


def discover_to_string(work_dir):
    """which runtime function id is `to_string` of which type: compile a probe script with the real compiler and read
    the CallRuntime instruction of each probe function from the captured LIR"""
    import re as _re
    types = list(INTS) + ["bool", "String"]
    src_ = "".join(f"fn ts_{t.lower()}(a: {t}) -> String {{\n    f\"{{a}}\"\n}}\n\n" for t in types)
    os.makedirs(work_dir, exist_ok=True)
    script = os.path.join(work_dir, "to_string_probe.roto")
    open(script, "w").write(src_)
    dump_programs([script], work_dir)
    d = json.load(open(os.path.join(work_dir, "to_string_probe.json")))
    table = {}
    for t in types:
        for ins in d.get("lir", {}).get(f"pkg.ts_{t.lower()}", []):
            m = _re.match(r"CallRuntime \{ func: RuntimeFunctionRef\((\d+)\)", ins)
            if m:
                table[int(m.group(1))] = t
                break
    clif.TO_STRING_TYPES.clear()
    clif.TO_STRING_TYPES.update(table)
    return table


def sig_of(fn):
    def n(t):
        if isinstance(t, tuple):
            if t[0] == "opt":
                return "opt_" + n(t[1])
            if t[0] == "verdict":
                return f"verdict_{n(t[1])}_{n(t[2])}"
        return t
    return ",".join(n(t) for _, t in fn.params) + "->" + n(fn.ret)


def bits_of(model, ty, v):
    """concrete bit pattern of a model value for `extract run`"""
    if ty == "Zst":
        return 0
    x = model.eval(v, model_completion=True)
    if ty == "bool":
        return 1 if z3.is_true(x) else 0
    if is_float(ty):
        if isinstance(x, z3.FPNumRef) and x.isNaN():
            return 0x7fc00000 if ty == "f32" else 0x7ff8000000000000     # fpToIEEEBV(NaN) is unspecified in SMT-LIB
        return z3.simplify(z3.fpToIEEEBV(x)).as_long()
    return x.as_long()


REAL_TIMEOUT = 60


def run_real(script, fn, sig, argbits, child=False, leakcheck=False):
    cmd = [EXTRACT, "run-child" if child else "run", script, fn, sig] + [hex(b) for b in argbits]
    env = dict(os.environ)
    if leakcheck:
        env["VERIF_LEAKCHECK"] = "1"      # warm-up call, then report the change in live heap allocations over a second call
    # own process group: `run-child` starts the real run as its child; on a timeout both must go
    proc = subprocess.Popen(cmd, stdout=subprocess.PIPE, stderr=subprocess.PIPE, text=True, env=env, start_new_session=True)
    try:
        so, se = proc.communicate(timeout=REAL_TIMEOUT)
    except subprocess.TimeoutExpired:
        import signal
        try:
            os.killpg(proc.pid, signal.SIGKILL)
        except ProcessLookupError:
            pass
        proc.communicate()
        raise
    p = subprocess.CompletedProcess(cmd, proc.returncode, so, se)
    line = p.stdout.strip().split("\n")[-1] if p.stdout.strip() else ""
    try:
        return json.loads(line)
    except Exception:
        return {"error": "unparseable extractor output", "rc": p.returncode, "stdout": p.stdout[-300:], "stderr": p.stderr[-300:]}


# ---------------------------------------------------------------------------- one program
class Outcome:
    def __init__(self, name):
        self.name = name
        self.status = "ok"          # ok | unsupported | compile_error | inconclusive
        self.reason = ""
        self.clif_paths = self.ref_paths = self.pairs = self.queries = 0
        self.findings = []          # dicts: kind, detail, args (bits), replay info
        self.trap_sites = 0
        self.solver_s = 0.0
        self.cut_pairs = 0


def check_program(prog, script, dump, modes, k_loop=4, depth=4, timeout_ms=10000, max_paths=48):
    out = Outcome(os.path.basename(script))
    if dump.get("compile") != "ok":
        out.status = "compile_error"
        out.reason = (dump.get("compile") if dump.get("compile") in ("panic", "crash") else "") + " " + (dump.get("report") or dump.get("stderr") or "")[:400]
        out.reason = out.reason.strip() or "rejected"
        return out
    t0 = time.time()
    try:
        world = World(dump, host_models())
        entry = [f for f in prog.fns if f.name == prog.entry][0]
        fname = f"pkg.{entry.name}"
        cf = world.funcs[fname]
        # symbolic arguments (shared by both sides)
        ref_args, cons = [], []
        for (n, t) in entry.params:
            v, c = lang.sym_value(t, f"arg_{n}")
            ref_args.append(v)
            cons += c
        ret_by_ptr = (len(cf.rets) == 0 and entry.ret != "unit" and layout(entry.ret, prog)[0] > 0)

        def run_clif(decide):
            path = Path(world, decide, k_loop, depth)
            path.ledger = Ledger()
            path.lists = {"stores": [], "handles": {}, "next": 5000}
            path.strings = {}
            args = []
            if ret_by_ptr:
                path.ret_region = path.new_region("ret", layout(entry.ret, prog)[0])
                args.append(Ptr(path.ret_region, 0))
            args.append(z3.BitVecVal(0, 64))          # context pointer (NoCtx)
            for (n, t), v in zip(entry.params, ref_args):
                if t == "unit":
                    continue
                if t == "Zst":
                    # the Rust caller passes a pointer for every registered `Val<T>` argument, also a zero-sized one
                    args.append(Ptr(path.new_region(f"arg_{n}", 0), 0))
                    continue
                if is_ref_type(t, prog):
                    r = path.new_region(f"arg_{n}", layout(t, prog)[0])
                    write_value(path, Ptr(r, 0), t, v, prog)
                    args.append(Ptr(r, 0))
                else:
                    args.append(scalar_to_clif(t, v))
            try:
                rv = path.call(fname, args, machine_abi=any(t == "Zst" for _, t in entry.params))
            except PathCut as e:
                e.path = path
                raise
            if ret_by_ptr:
                rv = Ptr(path.ret_region, 0)
            return path, rv

        def run_ref(decide):
            r = lang.Ref(prog, decide, k_loop, depth)
            v = r.run(entry.name, list(ref_args))
            return r, v

        ex1 = Explorer(cons, max_paths, timeout_ms)
        cpaths = ex1.explore(run_clif)
        ex2 = Explorer(cons, max_paths, timeout_ms)
        rpaths = ex2.explore(run_ref) if ("value" in modes or "trace" in modes) else []
        out.clif_paths, out.ref_paths = len(cpaths), len(rpaths)
        out.queries = ex1.queries + ex2.queries
        solver = z3.Solver()
        solver.set("timeout", timeout_ms)
        for c in cons:
            solver.add(c)

        def ask(conds):
            # a fresh (non-incremental) solver per query: z3's incremental core skips the preprocessing that makes
            # byte-wise Extract/Concat round trips through memory cheap
            out.queries += 1
            sv = z3.Solver()
            sv.set("timeout", timeout_ms)
            for c in cons:
                sv.add(c)
            for c in conds:
                sv.add(c)
            r = sv.check()
            if r == z3.unknown:
                raise Unsupported("solver timeout/unknown on a comparison query")
            return sv.model() if r == z3.sat else None

        def argbits(m):
            out_ = []
            for (n, t), v in zip(entry.params, ref_args):
                if t == "unit":
                    continue
                if isinstance(t, tuple) and t[0] == "opt":
                    tag = m.eval(v.tag, model_completion=True).as_long()
                    out_.append((1 << 63) if tag == 1 else bits_of(m, t[1], v.payloads[0][0]))
                elif isinstance(t, tuple):
                    raise Unsupported("argument type for replay")
                else:
                    out_.append(bits_of(m, t, v))
            return out_

        # --- trap obligations and ledger (CLIF side only)
        for conds, res in cpaths:
            if isinstance(res, PathCut):
                continue
            path, rv = res
            if "ledger" in modes:
                probs = list(path.ledger.problems)
                live = [i for i, s in path.ledger.state.items() if s == "live"]
                returned = set()
                if isinstance(rv, Ptr):
                    # ids inside the returned bytes are moved to the caller
                    reg = path.mem[rv.region]
                    for off in range(0, max(0, len(reg) - 7)):
                        v = path.peek(Ptr(rv.region, off), 8)
                        if v is not None:
                            v = z3.simplify(v)
                            if z3.is_bv_value(v) and v.as_long() in path.ledger.state:
                                returned.add(v.as_long())
                # tracked values owned by a list that is still referenced by a live handle are not leaked by themselves,
                # the live handle is
                lists = getattr(path, "lists", None)
                if lists:
                    live_handles = [h for h, (sid, stt) in lists["handles"].items() if stt == "live"]
                    if live_handles:
                        probs.append(f"list handle(s) {live_handles} still live at return (never dropped)")
                leaked = [i for i in live if i not in returned]
                if leaked:
                    probs.append(f"tracked value(s) {leaked} still live at return (never dropped, not returned)")
                if probs:
                    m = ask(conds)
                    if m is not None:
                        out.findings.append({"kind": "ledger", "detail": "; ".join(probs), "args": argbits(m),
                                             "events": [repr(e) for e in path.events if e.kind == "own"][:40]})
        if "trap" in modes:
            # trap conditions are recorded when the instruction is reached; ask for inputs that reach it with trapping operands.
            # They are collected per path *prefix*: re-run with a recording decide to get (prefix conds, trap cond)
            seen = set()
            for conds, res in cpaths:
                pth = res[0] if not isinstance(res, PathCut) else getattr(res, "path", None)
                if pth is None:
                    continue
                for (tc, desc, pre) in pth.trap_log:
                    key = (desc, str(tc), tuple(str(c) for c in pre))
                    if key in seen:
                        continue
                    seen.add(key)
                    out.trap_sites += 1
                    m = ask(list(pre) + [tc])
                    if m is not None:
                        out.findings.append({"kind": "trap", "detail": desc, "args": argbits(m)})
        # --- value / trace comparison on every jointly feasible pair of completed paths
        if "value" in modes or "trace" in modes:
            for cconds, cres in cpaths:
                for rconds, rres in rpaths:
                    c_cut, r_cut = isinstance(cres, PathCut), isinstance(rres, PathCut)
                    if c_cut and r_cut:
                        continue
                    both = cconds + rconds
                    if c_cut or r_cut:
                        # one side completed, the other hit the bound / an undefined operation: only a discrepancy if the
                        # *reference* completed (defined, within bound) while the code did not
                        if r_cut:
                            continue
                        if str(cres) in ("trap",):
                            continue
                        m = ask(both)
                        if m is not None:
                            out.cut_pairs += 1
                        continue
                    out.pairs += 1
                    path, rv = cres
                    ref, refv = rres
                    notes = []
                    if "value" in modes:
                        diff = z3.simplify(value_differs(path, entry.ret, rv, refv, prog, notes))
                        m = None if z3.is_false(diff) else ask(both + [diff])
                        if m is not None:
                            out.findings.append({"kind": "value", "detail": f"returned value differs from the reference on a feasible path",
                                                 "args": argbits(m)})
                            continue
                    if "trace" in modes:
                        ct = [e for e in path.events if e.kind == "host"]
                        rt = ref.trace
                        if len(ct) != len(rt) or any(a.name != b[0] for a, b in zip(ct, rt)):
                            m = ask(both)
                            if m is not None:
                                out.findings.append({"kind": "trace", "detail": f"host-call sequence differs: code {[e.name for e in ct]} vs reference {[b[0] for b in rt]}",
                                                     "args": argbits(m)})
                            continue
                        diffs = []
                        for a, b in zip(ct, rt):
                            for x, y in zip(a.args, b[1]):
                                if isinstance(x, tuple) and x[0] == "str":
                                    try:
                                        diffs.append(z3.Not(lang.content_equal(list(x[1]), list(y[1]))))
                                    except lang.StringShape:
                                        # contents of different shape: different unless this path pair is infeasible (the solver
                                        # decides that; a model is replayed against the real log before anything is reported)
                                        diffs.append(z3.BoolVal(True))
                                    continue
                                if z3.is_bool(y):
                                    y = scalar_to_clif("bool", y)
                                diffs.append(z3.Not(x == y) if z3.is_fp(x) else x != y)
                        diffs = [d for d in (z3.simplify(d) for d in diffs) if not z3.is_false(d)]
                        if diffs:
                            m = ask(both + [z3.Or(diffs)])
                            if m is not None:
                                out.findings.append({"kind": "trace", "detail": "a host call receives a different argument value than the reference",
                                                     "args": argbits(m)})
        if out.cut_pairs:
            out.status, out.reason = "inconclusive", f"{out.cut_pairs} path pair(s) where the reference completes within the bound but the code path was cut"
    except lang.StringShape:
        out.status, out.reason = "unsupported", "comparison of strings with symbolic parts of different shape (reference)"
    except Unsupported as e:
        out.status, out.reason = "unsupported", str(e)[:300]
    except (z3.Z3Exception,) as e:
        out.status, out.reason = "unsupported", "z3: " + str(e)[:300]
    out.solver_s = time.time() - t0
    return out
