"""Validation of the translator (Serval-style), run after the solver stage of engine T.

The solver decides "CLIF encoding == reference semantics for all arguments". That verdict is only as good as the
encoding: an opcode given the wrong meaning in tv/clif.py can make a wrong program look right. For every program the
solver found nothing on, the REAL JIT-compiled function is therefore called on a few concrete argument vectors
(boundary values of each parameter type and a small seeded mix) and its result / host-call log is compared with the
reference evaluated on the same concrete arguments. Solver says "equal everywhere" + real code differs from the
reference at a concrete point  =>  the encoding misrepresents the code: the program is reported as NOT decided
(exit 2), never as held and never - from this concrete run alone - as a violation.
Inputs on which the reference is undefined (zero divisors) or on which the process dies are skipped: they belong to
the trap obligations of C10.
"""
import os, random, subprocess, zlib
import lang

INT_PICKS = lambda w, signed: [0, 1, 2, 7, (1 << w) - 1, 1 << (w - 1), (1 << (w - 1)) - 1, 0x55 & ((1 << w) - 1), (1 << w) - 2]
F32_PICKS = [0x00000000, 0x3f800000, 0xc0200000, 0x7fc00000, 0x7f800000, 0x80000000, 0x00000001, 0x4b800001]
F64_PICKS = [0x0, 0x3ff0000000000000, 0xc004000000000000, 0x7ff8000000000000, 0x7ff0000000000000, 0x8000000000000000, 0x1, 0x4340000000000001]
CHAR_PICKS = [0x61, 0x0, 0xe9, 0x10ffff, 0xd7ff, 0x7f]


def picks(t):
    if lang.is_int(t):
        w, s = lang.INTS[t]
        return INT_PICKS(w, s)
    if t == "bool":
        return [0, 1]
    if t == "char":
        return CHAR_PICKS
    if t == "f32":
        return F32_PICKS
    if t == "f64":
        return F64_PICKS
    if isinstance(t, tuple) and t[0] == "opt" and lang.is_int(t[1]):
        w, s = lang.INTS[t[1]]
        return [1 << 63, 0, 3, (1 << w) - 1]
    return None


def vectors(prog, n):
    """n deterministic argument vectors for the program's entry function (None if a parameter type is not supported)"""
    entry = [f for f in prog.fns if f.name == prog.entry][0]
    per = []
    for _, t in entry.params:
        if t == "unit":
            continue
        p = picks(t)
        if p is None:
            return None
        per.append(p)
    rng = random.Random(zlib.crc32(prog.meta["name"].encode()))
    out = []
    # first vector: small distinct values where the type has them, then seeded mixes of boundary values
    out.append([p[min(i + 1, len(p) - 1)] for i, p in enumerate(per)])
    while len(out) < n:
        out.append([rng.choice(p) for p in per])
    # float parameters: NaN in the first float position, and in all of them (comparisons and min/max-like code differ there)
    ftypes = [t for _, t in entry.params if t != "unit"]
    fpos = [i for i, t in enumerate(ftypes) if t in ("f32", "f64")]
    if fpos:
        nan = lambda t: 0x7fc00000 if t == "f32" else 0x7ff8000000000000
        v = list(out[0])
        v[fpos[0]] = nan(ftypes[fpos[0]])
        out.append(v)
        v = list(out[0])
        for i in fpos:
            v[i] = nan(ftypes[i])
        out.append(v)
    return out


def validate(tvrun, prog, script, kinds, n):
    """returns (runs, skipped, mismatches[]); kinds: subset of {'value', 'trace'} the property decides"""
    vs = vectors(prog, n)
    if vs is None:
        return 0, 0, []
    runs = skipped = 0
    bad = []
    for args in vs:
        for kind in sorted(kinds):
            try:
                differs, det = tvrun.confirm(prog, script, {"args": args, "kind": kind})
            except subprocess.TimeoutExpired:
                skipped += 1        # a loop whose trip count is a boundary value: not a point this pass can afford
                break
            real = det.get("real") if isinstance(det, dict) else None
            if isinstance(det, dict) and (det.get("note") in ("process died",) or str(det.get("note", "")).startswith("aggregate")
                                          or "reference" in det or (isinstance(real, dict) and "error" in real)):
                skipped += 1
                continue
            runs += 1
            if differs:
                bad.append({"args": [hex(a) for a in args], "kind": kind, "details": str(det)[:400]})
    return runs, skipped, bad
