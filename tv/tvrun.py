"""Runs engine T over a corpus: generate -> compile with the real compiler -> symbolic comparison -> replay."""
import json, os, sys, time, shutil, multiprocessing as mp
sys.path.insert(0, os.path.dirname(os.path.abspath(__file__)))
import z3
import subprocess
import gen, lang, tv
from clif import PathCut

# one scratch directory per checking process (several checks may run at the same time)
WORK = os.path.join(os.environ.get("VERIF_BUILD") or os.path.join(os.path.dirname(os.path.dirname(os.path.abspath(__file__))), "build"), "tv", f"w{os.getpid()}")

_PROGS = {}
_OWNER = os.getpid()
# log lines of the extractor's registered functions that are host-call events (everything except create/clone/drop/eq bookkeeping)
HOST_EVENT_PREFIXES = ("emit", "pure", "msub", "opt_of", "res_of", "after_unit", "around_unit", "after_zst")


def _check(args):
    name, modes, k_loop, depth, timeout_ms = args
    prog = _PROGS[name]
    script = os.path.join(WORK, "src", name + ".roto")
    d = json.load(open(os.path.join(WORK, "dump", name + ".json")))
    try:
        o = tv.check_program(prog, script, d, modes, k_loop=k_loop, depth=depth, timeout_ms=timeout_ms)
    except Exception as e:  # encoder bug: never a pass
        import traceback
        o = tv.Outcome(name)
        o.status, o.reason = "unsupported", "internal: " + traceback.format_exc()[-600:]
    return {"name": name, "family": prog.meta["family"], "status": o.status, "reason": o.reason, "clif_paths": o.clif_paths,
            "ref_paths": o.ref_paths, "pairs": o.pairs, "queries": o.queries, "trap_sites": o.trap_sites, "findings": o.findings,
            "solver_s": round(o.solver_s, 3)}


def concrete_reference(prog, argbits):
    """evaluate the reference semantics on concrete arguments -> (value description, trace) or ('undefined', ...)"""
    entry = [f for f in prog.fns if f.name == prog.entry][0]
    args = []
    it = iter(argbits)
    for n, t in entry.params:
        b = next(it)
        if lang.is_int(t):
            args.append(z3.BitVecVal(b, lang.INTS[t][0]))
        elif t == "Zst":
            args.append(None)
        elif t == "bool":
            args.append(z3.BoolVal(bool(b)))
        elif t == "char":
            args.append(z3.BitVecVal(b, 32))
        elif lang.is_float(t):
            args.append(z3.fpBVToFP(z3.BitVecVal(b, 32 if t == "f32" else 64), lang.FLOATS[t]))
        elif isinstance(t, tuple) and t[0] == "opt":
            # extractor convention: bit 63 set = None, else Some(low bits)
            if b >> 63:
                args.append(lang.EnumVal(t, 1, {1: []}))
            else:
                args.append(lang.EnumVal(t, 0, {0: [z3.BitVecVal(b, lang.INTS[t[1]][0])]}))
        else:
            raise ValueError(t)

    def decide(c, what="", force=False):
        c = z3.simplify(c)
        if z3.is_true(c):
            return True
        if z3.is_false(c):
            return False
        raise ValueError(f"non-concrete condition {c}")
    r = lang.Ref(prog, decide, k_loop=10000, max_depth=64)
    try:
        v = r.run(entry.name, args)
    except PathCut as e:
        return "undefined", str(e), []
    return "ok", v, r.trace


def fp_bits_hex(v):
    """IEEE bits of a concrete z3 FP value; every NaN is rendered as the canonical quiet NaN (fpToIEEEBV(NaN) is unspecified)"""
    x = z3.simplify(v)
    if isinstance(x, z3.FPNumRef) and x.isNaN():
        return hex(0x7fc00000 if x.sort().ebits() == 8 else 0x7ff8000000000000)
    return hex(z3.simplify(z3.fpToIEEEBV(x)).as_long())


def rust_debug_str(s):
    """how Rust's `{:?}` prints a str (the extractor logs string arguments that way)"""
    out = []
    for ch in s:
        if ch == "\\":
            out.append("\\\\")
        elif ch == '"':
            out.append('\\"')
        elif ch == "\n":
            out.append("\\n")
        elif ch == "\t":
            out.append("\\t")
        elif ch == "\r":
            out.append("\\r")
        elif ch == "\0":
            out.append("\\0")
        else:
            out.append(ch)
    return '"' + "".join(out) + '"'


def is_nan_hex(h):
    x = int(h, 16)
    if x <= 0xffffffff:
        return (x & 0x7f800000) == 0x7f800000 and (x & 0x7fffff) != 0
    return (x & 0x7ff0000000000000) == 0x7ff0000000000000 and (x & ((1 << 52) - 1)) != 0


def same_event(w, g):
    """host-call log lines are equal, with every NaN argument of a float host function equal to every other NaN"""
    if w == g:
        return True
    pw, pg = w.split(" "), g.split(" ")
    if len(pw) != len(pg) or pw[0] != pg[0] or not pw[0].endswith(("f32", "f64")):
        return False
    return all(a == b or (a.startswith("0x") and b.startswith("0x") and is_nan_hex(a) and is_nan_hex(b)) for a, b in zip(pw[1:], pg[1:]))


def fmt_val(ty, v):
    if isinstance(ty, tuple) and ty[0] in ("opt", "verdict"):
        names = ["Some", "None"] if ty[0] == "opt" else ["Accept", "Reject"]
        tag = v.tag if isinstance(v.tag, int) else z3.simplify(v.tag).as_long()
        fts = [[ty[1]], []] if ty[0] == "opt" else [[ty[1]], [ty[2]]]
        if not fts[tag]:
            return names[tag]
        return {names[tag]: fmt_val(fts[tag][0], v.payloads[tag][0])}
    if ty == "unit":
        return "unit"
    if ty == "bool":
        return hex(1 if z3.is_true(z3.simplify(v)) else 0)
    if lang.is_float(ty):
        return fp_bits_hex(v)
    if lang.is_int(ty) or ty == "char":
        return hex(z3.simplify(v).as_long())
    return None


def confirm_ledger(real):
    if True:
        # simulate the real create/clone/drop log: imbalance, double drop, or any use of a dropped / never-created id
        state, problems = {}, []
        for e in real["events"]:
            p = e.split()
            if p[0] == "create":
                state[p[1]] = "live"
            elif p[0] == "clone":
                if state.get(p[1]) != "live":
                    problems.append(f"clone of {state.get(p[1], 'never-created')} value {p[1]}")
                state[p[2]] = "live"
            elif p[0] == "drop":
                if state.get(p[1]) != "live":
                    problems.append(f"drop of {state.get(p[1], 'never-created')} value {p[1]}")
                state[p[1]] = "dropped"
            elif p[0] == "eq":
                for i in p[1:3]:
                    if state.get(i) != "live":
                        problems.append(f"comparison reads {state.get(i, 'never-created')} value {i}")
            elif p[0] == "call" and p[1] in ("eat", "peek"):
                if state.get(p[2]) != "live":
                    problems.append(f"{p[1]} receives {state.get(p[2], 'never-created')} value {p[2]}")
        leaked = [k for k, v in state.items() if v == "live"]
        if leaked:
            problems.append(f"never dropped: {leaked}")
        # strings and list storage are plain heap objects: their leaks show as live allocations that outlive the call
        if real.get("alloc_delta", 0) != 0:
            problems.append(f"{real['alloc_delta']} heap allocation(s) made during the call are still live after it returned (strings / list storage leaked)"
                            if real["alloc_delta"] > 0 else f"live heap allocations decreased by {-real['alloc_delta']} over the call (something freed that the call did not own)")
        return bool(problems), {"problems": problems[:10], "events": real["events"][:60]}


def confirm(prog, script, finding):
    """Replay a solver model against the real JIT-compiled function. Returns (confirmed: bool, details)"""
    entry = [f for f in prog.fns if f.name == prog.entry][0]
    sig = tv.sig_of(entry)
    args = finding["args"]
    kind = finding["kind"]
    if kind == "trap":
        r = tv.run_real(script, "main", sig, args, child=True)
        return (r.get("signal") is not None), r
    r = tv.run_real(script, "main", sig, args, child=True, leakcheck=(kind == "ledger"))
    if r.get("signal") is not None or r.get("out") is None:
        return True, {"real": r, "note": "process died"}
    real = r["out"]
    if "error" in real:
        return False, {"real": real}
    if kind == "ledger":
        return confirm_ledger(real)
    st, v, trace = concrete_reference(prog, args)
    if st != "ok":
        return False, {"reference": "undefined on these inputs", "real": real}
    if kind == "value":
        want = fmt_val(entry.ret, v)
        got = real["ret"]
        if want is None:
            return True, {"real": real, "note": "aggregate result; solver verdict kept (no scalar to compare)"}
        if isinstance(want, dict) or isinstance(got, dict) or want in ("None", "Some", "Accept", "Reject"):
            def norm(x):
                if isinstance(x, dict):
                    return {k: norm(v) for k, v in x.items()}
                return int(x, 16) if isinstance(x, str) and x.startswith("0x") else x
            return norm(want) != norm(got), {"want": want, "got": got}
        if lang.is_float(entry.ret):
            # all NaNs are one value
            def isnan(h, w):
                x = int(h, 16)
                return (x & (0x7f800000 if w == 32 else 0x7ff0000000000000)) == (0x7f800000 if w == 32 else 0x7ff0000000000000) and (x & ((1 << (23 if w == 32 else 52)) - 1)) != 0
            w = 32 if entry.ret == "f32" else 64
            if isnan(want, w) and isnan(got, w):
                return False, {"want": want, "got": got}
        return (int(want, 16) != int(got, 16) if got != "unit" else False), {"want": want, "got": got}
    if kind == "trace":
        def render(x):
            parts = []
            for p in x[1]:
                if isinstance(p, str):
                    parts.append(p)
                else:
                    v = z3.simplify(p[2])
                    if p[1] == "bool":
                        parts.append("true" if z3.is_true(v) else "false")
                    else:
                        parts.append(str(v.as_signed_long() if lang.INTS[p[1]][1] else v.as_long()))
            return rust_debug_str("".join(parts))
        want = []
        for (n, a) in trace:
            if a and isinstance(a[0], tuple) and a[0][0] == "str":
                want.append(n + " " + render(a[0]))
                continue
            want.append(n + " " + " ".join(fmt_val("bool", x) if z3.is_bool(x) else (fp_bits_hex(x) if z3.is_fp(x) else hex(z3.simplify(x).as_long())) for x in a))
        got = []
        for e in real["events"]:
            p = e.split()
            if p[0] == "call":
                got.append(p[1] + " " + " ".join(p[3:] if p[1] in ("eat", "peek") else p[2:]))
            elif p[0].startswith(HOST_EVENT_PREFIXES):
                got.append(e)
        differs = len(want) != len(got) or any(not same_event(w, g) for w, g in zip(want, got))
        return differs, {"want": want, "got": got}
    return False, {}


def run(progs, modes_filter, tier, jobs=14, k_loop=3, depth=4, timeout_ms=10000):
    """progs: list of Programs (with meta). modes_filter: set of modes this property decides."""
    shutil.rmtree(WORK, ignore_errors=True)
    os.makedirs(os.path.join(WORK, "src"))
    os.makedirs(os.path.join(WORK, "dump"))
    import atexit
    atexit.register(lambda: shutil.rmtree(WORK, ignore_errors=True) if os.getpid() == _OWNER else None)
    paths = []
    for p in progs:
        name = p.meta["name"]
        _PROGS[name] = p
        f = os.path.join(WORK, "src", name + ".roto")
        open(f, "w").write(lang.program_src(p))
        paths.append(f)
    t0 = time.time()
    tv.discover_to_string(os.path.join(WORK, "probe"))      # before the pool forks: workers inherit the table
    tv.dump_programs(paths, os.path.join(WORK, "dump"))
    t_dump = time.time() - t0
    work = [(p.meta["name"], p.meta["modes"] & modes_filter, k_loop, depth, timeout_ms) for p in progs]
    with mp.Pool(jobs) as pool:
        results = pool.map(_check, work, chunksize=4)
    for r in results:
        script = os.path.join(WORK, "src", r["name"] + ".roto")
        for f in r["findings"]:
            try:
                ok, det = confirm(_PROGS[r["name"]], script, f)
            except subprocess.TimeoutExpired:
                ok, det = False, {"note": "the replay against the real JIT did not finish within 60 s"}
            f["confirmed"], f["replay"] = ok, det
    # translator validation (tv/tvalidate.py): programs the solver found nothing on are run for real on a few concrete
    # argument vectors and compared with the reference; a difference means the encoding misrepresents the code
    todo = [(r["name"], sorted(_PROGS[r["name"]].meta["modes"] & modes_filter & {"value", "trace"})) for r in results
            if r["status"] == "ok" and not r["findings"]]
    todo = [t for t in todo if t[1]][:VALIDATE_MAX]
    tv.REAL_TIMEOUT = 8
    with mp.Pool(jobs) as pool:
        vres = dict(pool.map(_validate, todo, chunksize=8))
    tv.REAL_TIMEOUT = 60
    for r in results:
        r["validation"] = vres.get(r["name"], {"runs": 0, "skipped": 0, "bad": []})
    return results, t_dump


VALIDATE_MAX = 3000


def _validate(item):
    name, kinds = item
    import tvalidate
    tv.REAL_TIMEOUT = 8
    try:
        runs, skipped, bad = tvalidate.validate(sys.modules[__name__], _PROGS[name], os.path.join(WORK, "src", name + ".roto"), set(kinds), 2)
    except Exception as e:
        runs, skipped, bad = 0, 0, [{"args": [], "kind": "internal", "details": repr(e)[:300]}]
    return name, {"runs": runs, "skipped": skipped, "bad": bad}


if __name__ == "__main__":
    tier = sys.argv[1] if len(sys.argv) > 1 else "quick"
    fam = sys.argv[2] if len(sys.argv) > 2 else None
    progs = gen.corpus(1, tier)
    if fam:
        progs = [p for p in progs if p.meta["family"] in fam.split(",") or p.meta["name"].startswith(fam)]
    res, t_dump = run(progs, {"value", "trace", "ledger", "trap"}, tier)
    from collections import Counter
    print(Counter(r["status"] for r in res), "dump", round(t_dump, 1), "s; solver", round(sum(r["solver_s"] for r in res), 1), "s")
    for r in res:
        if r["status"] != "ok":
            print(r["name"], r["status"], r["reason"][:300].replace("\n", " | "))
    for r in res:
        for f in r["findings"]:
            print("FINDING", r["name"], f["kind"], f["detail"][:120], f["args"], "confirmed=", f["confirmed"], str(f["replay"])[:200])
