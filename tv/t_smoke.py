import sys, os, json
sys.path.insert(0, os.path.dirname(os.path.abspath(__file__)))
from lang import *
import tv
a, b = Var("a", "i32"), Var("b", "i32")
progs = []
progs.append(Program([FnDef("main", [("a", "i32"), ("b", "i32")], "i32", Block([], Bin("/", a, b, "i32"), "i32"))]))
x, y = Var("a", "u16"), Var("b", "u16")
progs.append(Program([FnDef("main", [("a", "u16"), ("b", "u16")], "bool", Block([], Bin("&&", Bin("<", x, y, "bool"), Bin("!=", x, Lit("u16", 3), "bool"), "bool"), "bool"))]))
# while loop with emit
i, n = Var("i", "i32"), Var("a", "i32")
progs.append(Program([FnDef("main", [("a", "i32")], "i32", Block([
    Let("i", "i32", Lit("i32", 0)),
    ExprStmt(While(Bin("<", i, n, "bool"), Block([ExprStmt(Host("emit_i32", [i], "unit")), Assign(i, Lit("i32", 1), "+")], None, "unit"))),
], i, "i32"))]))
# tracked: while mk(i) != mk(n)
progs.append(Program([FnDef("main", [("a", "i32")], "i32", Block([
    Let("i", "i32", Lit("i32", 0)),
    ExprStmt(While(Bin("!=", Host("mk", [i], "Tracked"), Host("mk", [n], "Tracked"), "bool"), Block([Assign(i, Lit("i32", 1), "+")], None, "unit"))),
], i, "i32"))]))
os.makedirs("/tmp/tt/p", exist_ok=True)
paths = []
for k, p in enumerate(progs):
    f = f"/tmp/tt/p/p{k}.roto"
    open(f, "w").write(program_src(p))
    paths.append(f)
tv.dump_programs(paths, "/tmp/tt/p")
for k, p in enumerate(progs):
    d = json.load(open(f"/tmp/tt/p/p{k}.json"))
    print(program_src(p))
    o = tv.check_program(p, paths[k], d, {"value", "trace", "ledger", "trap"}, k_loop=3)
    print(k, o.status, o.reason, "paths", o.clif_paths, o.ref_paths, "pairs", o.pairs, "queries", o.queries, "traps", o.trap_sites, f"{o.solver_s:.2f}s")
    for f in o.findings:
        print("   FINDING", f)
