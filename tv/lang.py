"""A typed AST for the Roto subset the corpus generator emits, its pretty-printer (-> Roto source) and the
REFERENCE SEMANTICS (big-step, over z3 terms) written from docs/source/reference/language_reference.md -
independent of roto's own IRs.  The reference is path-wise like the CLIF executor: every symbolic condition is
resolved through a `decide` oracle, so values never need merging."""
import z3
from clif import PathCut

INTS = {"u8": (8, False), "u16": (16, False), "u32": (32, False), "u64": (64, False),
        "i8": (8, True), "i16": (16, True), "i32": (32, True), "i64": (64, True)}
FLOATS = {"f32": z3.Float32(), "f64": z3.Float64()}
RNE = z3.RNE()


def is_int(t):
    return t in INTS


def is_float(t):
    return t in FLOATS


def ty_src(t):
    if isinstance(t, tuple):
        if t[0] == "opt":
            return ty_src(t[1]) + "?"
        if t[0] in ("rec", "enum"):
            return t[1]
        if t[0] == "list":
            return f"List[{ty_src(t[1])}]"
        if t[0] == "verdict":
            return f"Verdict[{ty_src(t[1])}, {ty_src(t[2])}]"
        if t[0] == "result":
            return f"Result[{ty_src(t[1])}, {ty_src(t[2])}]"
    if t == "unit":
        return "()"
    return t


class Node:
    def __init__(self, kind, ty=None, **kw):
        self.kind, self.ty = kind, ty
        self.__dict__.update(kw)


# ---------------------------------------------------------------------------- constructors
def Lit(ty, v, spelling=None):
    return Node("lit", ty, v=v, spelling=spelling)


def Var(name, ty):
    return Node("var", ty, name=name)


def Bin(op, l, r, ty):
    return Node("bin", ty, op=op, l=l, r=r)


def Un(op, e):
    return Node("un", e.ty, op=op, e=e)


def If(c, t, e, ty):
    return Node("if", ty, c=c, t=t, e=e)          # t, e are Blocks; e may be None (then ty == unit)


def Block(stmts, expr, ty):
    return Node("block", ty, stmts=stmts, expr=expr)   # expr may be None (unit block)


def Call(fn, args, ty):
    return Node("call", ty, fn=fn, args=args)       # user function


def Host(name, args, ty):
    return Node("host", ty, name=name, args=args)


def HostM(name, recv, args, ty):
    """method registered by the host on a primitive type: `recv.msub(arg)`; the host sees it as <name>_<type>(recv, args..)"""
    return Node("host", ty, name=f"{name}_{recv.ty}", args=[recv] + args, method=name)


def Ret(e):
    return Node("ret", "never", e=e)


def Accept(e, vty):
    """`accept e` / `accept` in a filtermap whose verdict type is vty = ("verdict", A, R)"""
    return Node("verdictret", "never", which=0, e=e, vty=vty)


def Reject(e, vty):
    return Node("verdictret", "never", which=1, e=e, vty=vty)


def While(c, body):
    return Node("while", "unit", c=c, body=body)


def Field(e, name, ty):
    return Node("field", ty, e=e, name=name)


def RecLit(ty, fields):
    return Node("reclit", ty, fields=fields)        # fields: [(name, expr)] in source order


def Ctor(ty, variant, args):
    return Node("ctor", ty, variant=variant, args=args)


def Match(e, arms, ty):
    return Node("match", ty, e=e, arms=arms)        # arms: [(variant, [binding names], guard or None, body expr)]


def Try(e, ty):
    return Node("try", ty, e=e)                     # e? on Option


def Const(name, ty, value):
    """a constant registered by the host (the extractor library); value = the Rust-side value as a python object:
    int / bool / ("Some", v) / ("None",) / ("Accept", v) / ("Reject", v)"""
    return Node("const", ty, name=name, value=value)


def StrLit(text, spelling=None):
    """text: the string the literal denotes; spelling: how it is written between the quotes (default: text itself)"""
    return Node("strlit", "String", text=text, spelling=spelling)


def FStr(parts):
    return Node("fstr", "String", parts=parts)        # parts: python str (literal text) or expression nodes


def ListLit(ty, elems):
    return Node("listlit", ty, elems=elems)          # ty = ("list", T)


def For(var, vty, e, body):
    return Node("for", "unit", var=var, vty=vty, e=e, body=body)


def Method(recv, name, args, ty):
    return Node("method", ty, recv=recv, name=name, args=args)


def Paren(e):
    return Node("paren", e.ty, e=e)


# statements
def Let(name, ty, e, annotate=False):
    return Node("let", "unit", name=name, vty=ty, e=e, annotate=annotate)


def Assign(place, e, op=None):
    return Node("assign", "unit", place=place, e=e, op=op)     # place: Var or Field chain; op: None or '+', '-', ...


def ExprStmt(e):
    return Node("expr", "unit", e=e)


class FnDef:
    def __init__(self, name, params, ret, body):
        self.name, self.params, self.ret, self.body = name, params, ret, body   # params [(name, ty)]


class Program:
    def __init__(self, fns, records=None, enums=None, entry="main", meta=None):
        self.fns, self.records, self.enums, self.entry = fns, records or {}, enums or {}, entry
        self.meta = meta or {}
        # records: name -> [(field, ty)];  enums: name -> [(variant, [field types])]


# ---------------------------------------------------------------------------- printer
def lit_src(n):
    if n.spelling is not None:
        return n.spelling
    t, v = n.ty, n.v
    if t == "bool":
        return "true" if v else "false"
    if t == "unit":
        return "()"
    if is_int(t):
        if v < 0:
            return f"(-{-v}{t})"
        return f"{v}{t}"
    if is_float(t):
        s = repr(float(v))
        if "e" in s or "inf" in s or "nan" in s:
            raise ValueError("unprintable float literal")
        return f"({s}{t})" if v < 0 else f"{s}{t}"
    if t == "char":
        return "'" + v + "'"
    raise ValueError(t)


def src(n, ind=1):
    k = n.kind
    pad = "    " * ind
    if k == "lit":
        return lit_src(n)
    if k == "var":
        return n.name
    if k == "bin":
        return f"({src(n.l, ind)} {n.op} {src(n.r, ind)})"
    if k == "un":
        inner = src(n.e, ind)
        return f"({n.op}({inner}))" if inner.startswith("-") else f"({n.op}{inner})"
    if k == "paren":
        return f"({src(n.e, ind)})"
    if k == "if":
        s = f"if {src(n.c, ind)} {block_src(n.t, ind)}"
        if n.e is not None:
            s += f" else {block_src(n.e, ind)}"
        return s
    if k == "block":
        return block_src(n, ind)
    if k == "call":
        return f"{n.fn}({', '.join(src(a, ind) for a in n.args)})"
    if k == "host":
        if getattr(n, "method", None):
            r = src(n.args[0], ind)
            if n.args[0].kind not in ("var", "host", "call", "paren", "block", "field", "method"):
                r = f"({r})"
            return f"{r}.{n.method}({', '.join(src(a, ind) for a in n.args[1:])})"
        return f"{n.name}({', '.join(src(a, ind) for a in n.args)})"
    if k == "ret":
        if n.e is not None and n.e.kind in ("if", "block", "match", "while"):
            # `return if c {..} else {..}` is not accepted by the parser ("expected } but got 'if'"); parenthesised it is
            return f"return ({src(n.e, ind)})"
        return "return" + (f" {src(n.e, ind)}" if n.e is not None else "")
    if k == "verdictret":
        return ("accept" if n.which == 0 else "reject") + (f" {src(n.e, ind)}" if n.e is not None else "")
    if k == "while":
        return f"while {src(n.c, ind)} {block_src(n.body, ind)}"
    if k == "field":
        return f"{src(n.e, ind)}.{n.name}"
    if k == "reclit":
        return f"{n.ty[1]} {{ " + ", ".join(f"{f}: {src(e, ind)}" for f, e in n.fields) + " }"
    if k == "ctor":
        if n.ty[0] == "opt":
            return f"Option.{n.variant}" + (f"({', '.join(src(a, ind) for a in n.args)})" if n.args else "")
        if n.ty[0] == "verdict":
            return f"Verdict.{n.variant}" + (f"({', '.join(src(a, ind) for a in n.args)})" if n.args else "")
        if n.ty[0] == "result":
            return f"Result.{n.variant}" + (f"({', '.join(src(a, ind) for a in n.args)})" if n.args else "")
        return f"{n.ty[1]}.{n.variant}" + (f"({', '.join(src(a, ind) for a in n.args)})" if n.args else "")
    if k == "match":
        s = f"match {src(n.e, ind)} {{\n"
        for (variant, binds, guard, body) in n.arms:
            pat = variant + (f"({', '.join(binds)})" if binds else "")
            if guard is not None:
                pat += f" if {src(guard, ind + 1)}"
            s += f"{pad}    {pat} => {src(body, ind + 1)},\n"
        return s + pad + "}"
    if k == "try":
        return f"{src(n.e, ind)}?"
    if k == "rawsrc":
        return n.text
    if k == "const":
        return n.name
    if k == "strlit":
        return '"' + (n.spelling if getattr(n, "spelling", None) is not None else n.text) + '"'
    if k == "fstr":
        # literal text: `{` and `}` are written `{{` and `}}` (language reference, f-strings)
        return 'f"' + "".join(p.replace("{", "{{").replace("}", "}}") if isinstance(p, str) else "{" + src(p, ind) + "}" for p in n.parts) + '"'
    if k == "listlit":
        return "[" + ", ".join(src(e, ind) for e in n.elems) + "]"
    if k == "for":
        return f"for {n.var} in {src(n.e, ind)} {block_src(n.body, ind)}"
    if k == "method":
        return f"{src(n.recv, ind)}.{n.name}({', '.join(src(a, ind) for a in n.args)})"
    raise ValueError(k)


def stmt_src(s, ind):
    pad = "    " * ind
    if s.kind == "let":
        ann = f": {ty_src(s.vty)}" if s.annotate else ""
        return f"{pad}let {s.name}{ann} = {src(s.e, ind)};\n"
    if s.kind == "assign":
        return f"{pad}{src(s.place, ind)} {s.op or ''}= {src(s.e, ind)};\n"
    if s.kind == "expr":
        return f"{pad}{src(s.e, ind)};\n"
    raise ValueError(s.kind)


def block_src(b, ind):
    s = "{\n"
    for st in b.stmts:
        s += stmt_src(st, ind + 1)
    if b.expr is not None:
        s += "    " * (ind + 1) + src(b.expr, ind + 1) + "\n"
    return s + "    " * ind + "}"


def program_src(p):
    out = ""
    for name, fields in p.records.items():
        out += f"record {name} {{ " + ", ".join(f"{f}: {ty_src(t)}" for f, t in fields) + " }\n\n"
    for name, variants in p.enums.items():
        out += f"enum {name} {{ " + ", ".join(v + (f"({', '.join(ty_src(t) for t in ts)})" if ts else "") for v, ts in variants) + " }\n\n"
    for f in p.fns:
        params = ", ".join(f"{n}: {ty_src(t)}" for n, t in f.params)
        ret = "" if f.ret == "unit" else f" -> {ty_src(f.ret)}"
        if getattr(f, "filtermap", False):
            # a filtermap has no written return type: it returns Verdict[A, R] of its accept / reject payloads
            out += f"filtermap {f.name}({params}) {block_src(f.body, 0)}\n\n"
            continue
        out += f"fn {f.name}({params}){ret} {block_src(f.body, 0)}\n\n"
    return out


# ---------------------------------------------------------------------------- reference semantics
class Undefined(Exception):
    """the language leaves this input undefined (integer division by zero / MIN / -1): excluded from C01, decided by C10"""


def norm_content(parts):
    out = []
    for p in parts:
        if isinstance(p, str) and out and isinstance(out[-1], str):
            out[-1] += p
        elif p != "":
            out.append(p)
    return out


class StringShape(Exception):
    pass


def _num_matches_text(part, digits):
    """z3 Bool: to_string(part) == digits (a maximal run of [-0-9] / 'true' / 'false' cut out of a literal)"""
    _, ty, term = part
    if ty == "bool":
        if digits not in ("true", "false"):
            return z3.BoolVal(False)
        return term if digits == "true" else z3.Not(term)
    if not digits or digits in ("-",) or (digits.lstrip("-").startswith("0") and digits.lstrip("-") != "0") or digits == "-0" or "-" in digits[1:]:
        return z3.BoolVal(False)
    v = int(digits)
    w, sg = INTS[ty]
    lo, hi = (-(1 << (w - 1)), (1 << (w - 1)) - 1) if sg else (0, (1 << w) - 1)
    if not (lo <= v <= hi):
        return z3.BoolVal(False)
    return term == z3.BitVecVal(v, w)


def _match_text(parts, text):
    """z3 Bool: the content `parts` (literal text and number parts) renders exactly to the literal `text`"""
    conj, pos = [], 0
    for k, p in enumerate(parts):
        if isinstance(p, str):
            if not text.startswith(p, pos):
                return z3.BoolVal(False)
            pos += len(p)
        else:
            nxt = parts[k + 1] if k + 1 < len(parts) else None
            if nxt is not None and not isinstance(nxt, str):
                raise StringShape()          # two adjacent numbers: where the first ends is ambiguous
            if p[1] == "bool":
                run = "true" if text.startswith("true", pos) else ("false" if text.startswith("false", pos) else "")
            else:
                j = pos
                while j < len(text) and (text[j].isdigit() or (j == pos and text[j] == "-")):
                    j += 1
                run = text[pos:j]
                if nxt is not None and nxt[:1].isdigit():
                    raise StringShape()      # the literal after the number starts with a digit: ambiguous
            conj.append(_num_matches_text(p, run))
            pos += len(run)
    if pos != len(text):
        return z3.BoolVal(False)
    return z3.And(conj) if conj else z3.BoolVal(True)


def content_equal(a, b):
    """z3 Bool: two string contents (literal text and to_string(number) parts) are equal"""
    a, b = norm_content(list(a)), norm_content(list(b))
    a_text, b_text = all(isinstance(p, str) for p in a), all(isinstance(p, str) for p in b)
    if a_text and b_text:
        return z3.BoolVal(a == b)
    if b_text:
        return _match_text(a, "".join(b))
    if a_text:
        return _match_text(b, "".join(a))
    if len(a) != len(b):
        raise StringShape()
    conj = []
    for x, y in zip(a, b):
        if isinstance(x, str) or isinstance(y, str):
            if x != y:
                raise StringShape()
        else:
            if x[1] != y[1]:
                raise StringShape()
            conj.append(x[2] == y[2])
    return z3.And(conj) if conj else z3.BoolVal(True)


class ListVal:
    """the one shared type: a handle to a storage that every copy observes"""

    def __init__(self):
        self.elems = []


class ReturnEx(Exception):
    def __init__(self, v):
        self.v = v


class EnumVal:
    """tag: python int or z3 BV8 term; payloads: {variant index: [values]}"""

    def __init__(self, ty, tag, payloads):
        self.ty, self.tag, self.payloads = ty, tag, payloads


def const(ty, v):
    if is_int(ty):
        return z3.BitVecVal(v, INTS[ty][0])
    if is_float(ty):
        return z3.FPVal(v, FLOATS[ty])
    if ty == "bool":
        return z3.BoolVal(bool(v))
    if ty == "char":
        return z3.BitVecVal(ord(v), 32)
    if ty == "unit":
        return None
    raise ValueError(ty)


class Ref:
    def __init__(self, prog, decide, k_loop=4, max_depth=4):
        self.p, self.decide, self.k_loop, self.max_depth = prog, decide, k_loop, max_depth
        self.trace = []       # [(host function name, [arg terms])]
        self.fn = {f.name: f for f in prog.fns}
        self.undefined = []   # conditions under which the reference is undefined (collected as assumptions)

    def variants(self, ty):
        if ty[0] == "opt":
            return [("Some", [ty[1]]), ("None", [])]
        if ty[0] == "verdict":
            return [("Accept", [ty[1]]), ("Reject", [ty[2]])]
        if ty[0] == "result":
            return [("Ok", [ty[1]]), ("Err", [ty[2]])]
        return self.p.enums[ty[1]]

    # -- entry
    def run(self, fname, args):
        return self.call(fname, args, 0)

    def call(self, fname, args, depth):
        if depth > self.max_depth:
            raise PathCut("reference recursion depth")
        f = self.fn[fname]
        env = [dict((n, a) for (n, _), a in zip(f.params, args))]
        try:
            v = self.block(f.body, env, depth, new_scope=False)
        except ReturnEx as r:
            v = r.v
        return v

    def block(self, b, env, depth, new_scope=True):
        if new_scope:
            env = env + [{}]
        for s in b.stmts:
            self.stmt(s, env, depth)
        if b.expr is not None:
            return self.ev(b.expr, env, depth)
        return None

    def lookup(self, env, name):
        for sc in reversed(env):
            if name in sc:
                return sc
        raise KeyError(name)

    def stmt(self, s, env, depth):
        if s.kind == "let":
            v = self.ev(s.e, env, depth)
            env[-1][s.name] = v
        elif s.kind == "expr":
            self.ev(s.e, env, depth)
        elif s.kind == "assign":
            if s.op is not None:
                # documented desugaring: target = target op rhs, target read first
                cur = self.ev(s.place, env, depth)
                rhs = self.ev(s.e, env, depth)
                v = self.binop(s.op, cur, rhs, s.place.ty)
            else:
                v = self.ev(s.e, env, depth)
            self.assign(s.place, v, env)
        else:
            raise ValueError(s.kind)

    def assign(self, place, v, env):
        if place.kind == "var":
            self.lookup(env, place.name)[place.name] = v
        elif place.kind == "field":
            # value semantics: rebuild the record with one field replaced
            base = self.ev_place(place.e, env)
            new = dict(base)
            new[place.name] = v
            self.assign(place.e, new, env)
        else:
            raise ValueError("assignment target")

    def ev_place(self, place, env):
        if place.kind == "var":
            return self.lookup(env, place.name)[place.name]
        return self.ev_place(place.e, env)[place.name]

    def truth(self, c, what):
        return self.decide(c, what)

    def binop(self, op, a, b, ty):
        """ty = operand type"""
        if ty == "String":
            if op == "+":
                return norm_content(list(a) + list(b))
            if op in ("==", "!="):
                r = content_equal(a, b)
                return z3.simplify(r if op == "==" else z3.Not(r))
            raise ValueError(op)
        if op in ("+", "-", "*"):
            if is_float(ty):
                return {"+": z3.fpAdd, "-": z3.fpSub, "*": z3.fpMul}[op](RNE, a, b)
            return z3.simplify({"+": lambda: a + b, "-": lambda: a - b, "*": lambda: a * b}[op]())
        if op in ("/", "%"):
            if is_float(ty):
                return z3.fpDiv(RNE, a, b)
            w, signed = INTS[ty]
            bad = b == z3.BitVecVal(0, w)
            if signed:
                bad = z3.Or(bad, z3.And(a == z3.BitVecVal(1 << (w - 1), w), b == z3.BitVecVal(-1, w)))
            # the language does not define these; the path continues on defined inputs only
            if not self.decide(z3.Not(bad), "defined-division", force=True):
                raise PathCut("undefined division")
            if op == "/":
                return z3.simplify(a / b if signed else z3.UDiv(a, b))
            return z3.simplify(z3.SRem(a, b) if signed else z3.URem(a, b))
        if op in ("==", "!="):
            r = self.equal(a, b, ty)
            return z3.simplify(r if op == "==" else z3.Not(r))
        if op in ("<", "<=", ">", ">="):
            if is_float(ty):
                return {"<": z3.fpLT, "<=": z3.fpLEQ, ">": z3.fpGT, ">=": z3.fpGEQ}[op](a, b)
            signed = INTS[ty][1] if is_int(ty) else False
            if signed:
                return z3.simplify({"<": a < b, "<=": a <= b, ">": a > b, ">=": a >= b}[op])
            return z3.simplify({"<": z3.ULT, "<=": z3.ULE, ">": z3.UGT, ">=": z3.UGE}[op](a, b))
        raise ValueError(op)

    def equal(self, a, b, ty):
        if is_float(ty):
            return z3.fpEQ(a, b)
        if ty == "unit":
            return z3.BoolVal(True)
        if isinstance(ty, tuple) and ty[0] == "rec":
            return z3.And([self.equal(a[f], b[f], t) for f, t in self.p.records[ty[1]]] or [z3.BoolVal(True)])
        if isinstance(ty, tuple) and ty[0] in ("enum", "opt", "verdict", "result"):
            vs = self.variants(ty)
            cases = []
            for i, (vn, fts) in enumerate(vs):
                both = z3.And(self.tag_is(a, i), self.tag_is(b, i))
                if a.payloads.get(i) is not None and b.payloads.get(i) is not None:
                    eqs = [self.equal(x, y, t) for x, y, t in zip(a.payloads[i], b.payloads[i], fts)]
                    cases.append(z3.And([both] + eqs))
                elif not fts:
                    cases.append(both)
                else:
                    # one side cannot be this variant on this path
                    pass
            return z3.Or(cases) if cases else z3.BoolVal(False)
        if ty == "Tracked":
            return a["val"] == b["val"]
        if ty == "String":
            return content_equal(a, b)
        return a == b

    def tag_is(self, v, i):
        if isinstance(v.tag, int):
            return z3.BoolVal(v.tag == i)
        return v.tag == z3.BitVecVal(i, 8)

    def ev(self, n, env, depth):
        k = n.kind
        if k == "lit":
            return const(n.ty, n.v)
        if k == "paren":
            return self.ev(n.e, env, depth)
        if k == "rawsrc":
            return self.ev(n.tree, env, depth)
        if k == "var":
            return self.lookup(env, n.name)[n.name]
        if k == "bin":
            if n.op == "&&":
                l = self.ev(n.l, env, depth)
                if not self.truth(l, "&&"):
                    return z3.BoolVal(False)
                return self.ev(n.r, env, depth)
            if n.op == "||":
                l = self.ev(n.l, env, depth)
                if self.truth(l, "||"):
                    return z3.BoolVal(True)
                return self.ev(n.r, env, depth)
            l = self.ev(n.l, env, depth)
            r = self.ev(n.r, env, depth)
            return self.binop(n.op, l, r, n.l.ty)
        if k == "un":
            v = self.ev(n.e, env, depth)
            if n.op == "!":
                return z3.simplify(z3.Not(v))
            if is_float(n.ty):
                return z3.fpNeg(v)
            return z3.simplify(-v)
        if k == "if":
            c = self.ev(n.c, env, depth)
            if self.truth(c, "if"):
                return self.block(n.t, env, depth)
            if n.e is not None:
                return self.block(n.e, env, depth)
            return None
        if k == "block":
            return self.block(n, env, depth)
        if k == "while":
            it = 0
            while True:
                c = self.ev(n.c, env, depth)
                if not self.truth(c, "while"):
                    return None
                it += 1
                if it > self.k_loop:
                    raise PathCut("reference loop bound")
                self.block(n.body, env, depth)
        if k == "call":
            args = [self.ev(a, env, depth) for a in n.args]
            return self.call(n.fn, args, depth + 1)
        if k == "host":
            args = [self.ev(a, env, depth) for a in n.args]
            return self.host(n.name, args, n)
        if k == "ret":
            raise ReturnEx(self.ev(n.e, env, depth) if n.e is not None else None)
        if k == "verdictret":
            # nothing after accept / reject runs; the filtermap returns Accept(payload) / Reject(payload)
            raise ReturnEx(EnumVal(n.vty, n.which, {n.which: [self.ev(n.e, env, depth) if n.e is not None else None]}))
        if k == "field":
            return self.ev(n.e, env, depth)[n.name]
        if k == "reclit":
            # fields are evaluated in source order, stored by name
            return {f: self.ev(e, env, depth) for f, e in n.fields}
        if k == "ctor":
            vs = self.variants(n.ty)
            idx = [v for v, _ in vs].index(n.variant)
            return EnumVal(n.ty, idx, {idx: [self.ev(a, env, depth) for a in n.args]})
        if k == "match":
            v = self.ev(n.e, env, depth)
            vs = self.variants(n.e.ty)
            names = [x for x, _ in vs]
            for (variant, binds, guard, body) in n.arms:
                if variant == "_":
                    if guard is not None:
                        g = self.ev(guard, env, depth)
                        if not self.truth(g, "guard"):
                            continue
                    return self.ev(body, env, depth)
                i = names.index(variant)
                if not self.truth(self.tag_is(v, i), f"match {variant}"):
                    continue
                scope = dict(zip(binds, v.payloads[i]))
                if guard is not None:
                    g = self.ev(guard, env + [scope], depth)
                    if not self.truth(g, "guard"):
                        continue
                return self.ev(body, env + [scope], depth)
            raise PathCut("non-exhaustive match (generator bug)")
        if k == "const":
            return self.const_value(n.ty, n.value)
        if k == "strlit":
            return [n.text] if n.text else []
        if k == "fstr":
            parts = []
            for p in n.parts:
                if isinstance(p, str):
                    parts.append(p)
                else:
                    v = self.ev(p, env, depth)
                    parts += list(v) if p.ty == "String" else [("num", p.ty, v)]
            return norm_content(parts)
        if k == "listlit":
            l = ListVal()
            for e in n.elems:
                l.elems.append(self.ev(e, env, depth))
            return l
        if k == "method":
            recv = self.ev(n.recv, env, depth)
            args = [self.ev(a, env, depth) for a in n.args]
            if n.name == "push":
                recv.elems.append(args[0])
                return None
            if n.name == "len":
                return z3.BitVecVal(len(recv.elems), 64)
            if n.name == "get":
                for i in range(len(recv.elems)):
                    if self.truth(args[0] == z3.BitVecVal(i, 64), f"get {i}"):
                        return EnumVal(n.ty, 0, {0: [recv.elems[i]]})
                return EnumVal(n.ty, 1, {1: []})
            raise ValueError(n.name)
        if k == "for":
            l = self.ev(n.e, env, depth)
            i = 0
            # the loop asks the list for element i until it answers None, so pushes made by the body are seen
            while i < len(l.elems):
                if i >= self.k_loop:
                    raise PathCut("reference loop bound")
                self.block(n.body, env + [{n.var: l.elems[i]}], depth)
                i += 1
            return None
        if k == "try":
            v = self.ev(n.e, env, depth)
            if self.truth(self.tag_is(v, 0), "?"):
                return v.payloads[0][0]
            raise ReturnEx(EnumVal(("opt", None), 1, {1: []}))
        raise ValueError(k)

    def const_value(self, ty, v):
        if isinstance(ty, tuple) and ty[0] in ("opt", "verdict"):
            names = ["Some", "None"] if ty[0] == "opt" else ["Accept", "Reject"]
            idx = names.index(v[0])
            fts = self.variants(ty)[idx][1]
            return EnumVal(ty, idx, {idx: [self.const_value(fts[0], v[1])] if fts and fts[0] != "unit" else ([None] if fts else [])})
        return const(ty, v)

    def host(self, name, args, n):
        if name in ("emit_str", "pure_str"):
            self.trace.append((name, [("str", tuple(args[0]))]))
            return list(args[0]) if name == "pure_str" else None
        if name.startswith("emit_") or name == "emit7":
            self.trace.append((name, args))
            return None
        if name.startswith("pure_"):
            self.trace.append((name, args))
            return args[0]
        if name.startswith("msub_"):
            self.trace.append((name, args))
            return args[0] - args[1]
        if name == "after_zst":
            vals = [a for a in args if a is not None]        # the zero-sized argument has no value
            self.trace.append((name, vals))
            return vals[0]
        if name in ("after_unit", "around_unit"):
            vals = [a for a in args if a is not None]        # the unit argument has no value
            self.trace.append((name, vals))
            return vals[0] if name == "after_unit" else vals[0] - vals[1]
        if name == "opt_of":
            # Rust: if x & 1 == 1 { Some(x ^ 0x5A5A) } else { None }
            self.trace.append((name, args))
            x = args[0]
            return EnumVal(("opt", "u32"), z3.If(x & 1 == 1, z3.BitVecVal(0, 8), z3.BitVecVal(1, 8)), {0: [x ^ 0x5A5A], 1: []})
        if name == "res_of":
            # Rust: if x < 0x8000_0000 { Ok(x + 7) } else { Err(-(x as i32)) }   (wrapping)
            self.trace.append((name, args))
            x = args[0]
            return EnumVal(("result", "u32", "i32"), z3.If(z3.ULT(x, 0x80000000), z3.BitVecVal(0, 8), z3.BitVecVal(1, 8)), {0: [x + 7], 1: [-x]})
        if name == "mk":
            self.trace.append((name, args))
            return {"val": args[0]}
        if name in ("eat", "peek"):
            self.trace.append((name, [args[0]["val"]]))
            return args[0]["val"] if name == "peek" else None
        raise ValueError(name)


def sym_value(ty, name, prog=None):
    """fresh symbolic value of a boundary type + validity constraints"""
    cons = []
    if is_int(ty):
        return z3.BitVec(name, INTS[ty][0]), cons
    if is_float(ty):
        return z3.FP(name, FLOATS[ty]), cons
    if ty == "bool":
        return z3.Bool(name), cons
    if ty == "Zst":
        return None, cons          # zero-sized registered type: no value
    if ty == "char":
        c = z3.BitVec(name, 32)
        cons.append(z3.Or(z3.ULT(c, 0xD800), z3.And(z3.UGT(c, 0xDFFF), z3.ULE(c, 0x10FFFF))))
        return c, cons
    if isinstance(ty, tuple) and ty[0] == "opt":
        tag = z3.BitVec(name + "_tag", 8)
        cons.append(z3.ULE(tag, 1))
        inner, c2 = sym_value(ty[1], name + "_some")
        return EnumVal(ty, tag, {0: [inner], 1: []}), cons + c2
    raise ValueError(ty)
