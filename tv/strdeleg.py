"""Engine B, string delegations: the String methods of the default runtime are two one-line layers over Rust's `str`
(`src/runtime/basic.rs` wrapper -> `RotoString::m` in `src/value/string.rs` -> `str::m`). From the MIR dump of /repo the
body registered under each script-visible name is executed with its parameters as values of uninterpreted sorts; field
projections, references, `Deref`, `Into`, `AsRef`, `Option::map(Into::into)` are identities, `RotoString::m` is entered
through its own MIR body, every other call is an uninterpreted function named after its callee. z3 then decides that
the result IS the documented `str` operation applied to the parameters in the documented order (and to nothing else):
`trim_start` implemented by `trim_end`, swapped `replace` arguments, `repeat(n + 1)`, a needle and haystack exchanged
all make the inequality satisfiable. A mismatch is confirmed on concrete probes against the real JIT (expected answers
are those of Rust's std) before it is a violation; a mismatch no probe shows is inconclusive."""
import json, os, re, subprocess, time
import z3
import mir as M
import builtins_b as B

STR = "Str"
# script name -> (regex of the documented std callee, parameter order, result kind)
SPEC = {
    "contains": (r"core::str::<impl str>::contains::<&str>", [0, 1], "bool"),
    "starts_with": (r"core::str::<impl str>::starts_with::<&str>", [0, 1], "bool"),
    "ends_with": (r"core::str::<impl str>::ends_with::<&str>", [0, 1], "bool"),
    "to_lowercase": (r"(?:std|alloc)::str::<impl str>::to_lowercase", [0], STR),
    "to_uppercase": (r"(?:std|alloc)::str::<impl str>::to_uppercase", [0], STR),
    "repeat": (r"(?:std|alloc)::str::<impl str>::repeat", [0, 1], STR),
    "replace": (r"(?:std|alloc)::str::<impl str>::replace::<&str>", [0, 1, 2], STR),
    "trim": (r"core::str::<impl str>::trim", [0], STR),
    "trim_start": (r"core::str::<impl str>::trim_start", [0], STR),
    "trim_end": (r"core::str::<impl str>::trim_end", [0], STR),
    "strip_prefix": (r"core::str::<impl str>::strip_prefix::<&str>", [0, 1], STR),
    "strip_suffix": (r"core::str::<impl str>::strip_suffix::<&str>", [0, 1], STR),
}
PROBES = {
    "contains": [('"hello".contains("ell")', True), ('"ell".contains("hello")', False), ('"abc".contains("")', True)],
    "starts_with": [('"hello".starts_with("he")', True), ('"he".starts_with("hello")', False), ('"hello".starts_with("lo")', False)],
    "ends_with": [('"hello".ends_with("lo")', True), ('"lo".ends_with("hello")', False), ('"hello".ends_with("he")', False)],
    # incl. the context-sensitive and expanding cases of Unicode case mapping (final sigma, sharp s, dotted capital I)
    "to_lowercase": [('"AbC".to_lowercase() == "abc"', True), ('"Éa".to_lowercase() == "éa"', True), ('"ΑΣ".to_lowercase() == "ας"', True),
                     ('"ΣΑ".to_lowercase() == "σα"', True), ('"İ".to_lowercase() == "i̇"', True)],
    "to_uppercase": [('"AbC".to_uppercase() == "ABC"', True), ('"éa".to_uppercase() == "ÉA"', True), ('"ß".to_uppercase() == "SS"', True), ('"ǆ".to_uppercase() == "Ǆ"', True)],
    "repeat": [('"ab".repeat(3) == "ababab"', True), ('"ab".repeat(0) == ""', True), ('"ab".repeat(1) == "ab"', True)],
    "replace": [('"a-b-c".replace("-", "+") == "a+b+c"', True), ('"aaa".replace("a", "bb") == "bbbbbb"', True), ('"abc".replace("x", "y") == "abc"', True)],
    "trim": [('" \\t ab  ".trim() == "ab"', True)],
    "trim_start": [('"  ab  ".trim_start() == "ab  "', True)],
    "trim_end": [('"  ab  ".trim_end() == "  ab"', True)],
    "strip_prefix": [('match "foobar".strip_prefix("foo") { Some(s) => s == "bar", None => false }', True),
                     ('match "foobar".strip_prefix("bar") { Some(s) => false, None => true }', True)],
    "strip_suffix": [('match "foobar".strip_suffix("bar") { Some(s) => s == "foo", None => false }', True),
                     ('match "foobar".strip_suffix("foo") { Some(s) => false, None => true }', True)],
}
TRANSPARENT = re.compile(r"<.* as (?:std::ops::)?Deref>::deref$|<.* as Into<.*>>::into$|<.* as (?:std::convert::)?AsRef<.*>>::as_ref$|"
                         r"<.* as (?:std::convert::)?From<.*>>::from$|<.* as (?:std::borrow::)?Borrow<.*>>::borrow$|<.* as (?:std::clone::)?Clone>::clone$")
_UFS = {}


class SInterp(M.Interp):
    def place(self, p, env, f):
        p = p.strip()
        # the string data sits behind two newtype fields (`RotoString(StringData(Arc<str>))`): projections are identities
        m = re.fullmatch(r"\((.+)\.(\d+): .*\)", p)
        if m:
            base = self.place(m.group(1), env, f)
            if isinstance(base, M.Scalar):
                return base
        m = re.fullmatch(r"\(\*(.+)\)", p)
        if m:
            r = self.place(m.group(1), env, f)
            while isinstance(r, M.Ref):
                r = r.get()
            return r
        return super().place(p, env, f)

    def cast(self, v, to, kind):
        if kind == "IntToInt" and to == "usize" and v.ty == "u64":
            return M.Scalar(v.t, "usize")
        return super().cast(v, to, kind)

    def call(self, callee, argv, depth):
        args = []
        for v in argv:
            while isinstance(v, M.Ref):
                v = v.get()
            args.append(v)
        if TRANSPARENT.search(callee):
            return args[0]
        m = re.fullmatch(r"Option::<&str>::map::<RotoString, \{closure@src/value/string\.rs:(\d+):\d+: \d+:\d+\}>", callee)
        if m:
            # Option<&str> -> Option<RotoString>: an identity here only if the closures of strip_prefix / strip_suffix do nothing
            # but convert (`Into::into` / `From::from`)
            cands = [b for k, v in self.m.fns.items() for b in v if re.search(r"value::string::<impl at src/value/string\.rs:[\d: ]+>::(strip_prefix|strip_suffix)::\{closure#\d+\}$", k)]
            for b in cands:
                calls = [st for blk in b["blocks"].values() for st in blk if re.search(r" = .*\(.*\) -> ", st)]
                if len(calls) != 1 or not TRANSPARENT.search(re.search(r" = (.*?)\(", calls[0]).group(1)):
                    raise M.Unsupported("the closure mapped over the stripped string does more than convert it")
            return args[0]
        m = re.fullmatch(r"RotoString::(\w+)", callee)
        if m:
            f2 = self.m.fn(r"value::string::<impl at src/value/string\.rs:[\d: ]+>::%s$" % m.group(1))
            return self.run(f2, "bb0", dict(zip(f2["params"], argv)), depth + 1)
        if not all(isinstance(a, M.Scalar) for a in args):
            raise M.Unsupported(f"call {callee} with a non-scalar argument")
        kind = next((k for n, (rx, _, k) in SPEC.items() if re.fullmatch(rx, callee)), None) or STR
        key = (callee, tuple(str(a.t.sort()) for a in args))
        if key not in _UFS:
            _UFS[key] = (z3.Function(re.sub(r"[^A-Za-z0-9_]", "_", callee) + f"_{len(_UFS)}", *[a.t.sort() for a in args],
                                     z3.BoolSort() if kind == "bool" else B.usort(kind)), kind)
        uf, kind = _UFS[key]
        return M.Scalar(uf(*[a.t for a in args]), kind)


def check(mir_text, repo, extract, work, timeout_ms=30000):
    t0 = time.time()
    regs = B.registrations_any(mir_text)
    mir = M.Mir(mir_text, repo)
    rows = []
    for name, (callee_rx, order, kind) in sorted(SPEC.items()):
        row = {"type": "String", "name": name, "status": "ok", "queries": 0}
        rows.append(row)
        key = next((k for k in regs if k[1] == name and k[0].endswith("RotoString")), None)
        if key is None:
            row["status"], row["why"] = "inconclusive", f"String.{name} is not among the registrations found in the MIR dump"
            continue
        params, ret, path = regs[key]
        bodies = [f for k, v in mir.fns.items() for f in v if k.startswith(path + "::<impl") and k.endswith("::__ext__")]
        if len(bodies) != 1:
            row["status"], row["why"] = "inconclusive", f"{len(bodies)} MIR bodies for {path}"
            continue
        f = bodies[0]
        syms = []
        for i, p in enumerate(params):
            if p.strip() in ("u64", "usize"):
                syms.append(M.Scalar(z3.BitVec(f"p{i}", 64), "u64"))
            else:
                syms.append(M.Scalar(z3.Const(f"p{i}", B.usort(STR)), STR))
        it = SInterp(mir, True, {})
        try:
            got = it.run(f, "bb0", dict(zip(f["params"], syms)))
        except (M.Unsupported, M.Loud) as e:
            row["status"], row["why"] = "inconclusive", f"MIR body not encodable: {e}"
            continue
        if not isinstance(got, M.Scalar):
            row["status"], row["why"] = "inconclusive", "the body does not return a value of the modelled kinds"
            continue
        row["body"] = str(got.t)[:160]
        cands = [uf for (callee, sorts), (uf, k) in _UFS.items() if re.fullmatch(callee_rx, callee) and len(sorts) == len(order)]
        ok = False
        if cands:
            s = z3.Solver()
            s.set("timeout", timeout_ms)
            try:
                s.add(z3.And([got.t != uf(*[syms[i].t for i in order]) for uf in cands]))
                row["queries"] += 1
                ok = s.check() == z3.unsat
            except z3.Z3Exception:
                ok = False           # sort mismatch: certainly not the documented application
        if ok:
            continue
        os.makedirs(work, exist_ok=True)
        failed = []
        for i, (expr, expected) in enumerate(PROBES.get(name, [])):
            script = os.path.join(work, f"probe_String_{name}_{i}.roto")
            open(script, "w").write(f"fn main() -> bool {{\n    {expr}\n}}\n")
            p = subprocess.run([extract, "run-child", script, "main", "->bool"], capture_output=True, text=True, timeout=120)
            try:
                o = json.loads(p.stdout.strip().split("\n")[-1])
                real = int((o.get("out") or o)["ret"], 16) == 1
            except Exception:
                real = None          # crashed / no answer: differs from every documented answer
            if real != expected:
                failed.append({"script": open(script).read(), "expected": expected, "real": real})
        row["probes_failed"] = failed
        if failed:
            row["status"] = "violation"
            row["detail"] = (f"String.{name} is not its documented operation ({row['body']}): `{failed[0]['script'].splitlines()[1].strip()}` "
                             f"gives {failed[0]['real']}, Rust's str::{name} gives {failed[0]['expected']}")
            row["replay"] = {"script": failed[0]["script"], "sig": "->bool", "args": [], "documented": str(failed[0]["expected"]),
                             "documented_bits": 1 if failed[0]["expected"] else 0}
        else:
            row["status"], row["why"] = "inconclusive", f"the body registered as String.{name} ({row['body']}) is not the documented delegation, but no concrete probe shows a different answer"
    return rows, round(time.time() - t0, 2)


if __name__ == "__main__":
    build = os.environ.get("VERIF_BUILD") or os.path.join(os.path.dirname(os.path.dirname(os.path.abspath(__file__))), "build")
    text = open(os.environ.get("VERIF_MIR", os.path.join(build, "mir", "roto.mir"))).read()
    rows, secs = check(text, os.environ.get("VERIF_REPO", "/repo"), os.path.join(build, "extract", "debug", "extract"), os.path.join(build, "builtins"))
    for r in rows:
        print(r["name"], r["status"], r.get("why", ""), r.get("detail", ""), r.get("body", "")[:110])
    print(secs, "s")
