"""Engine B: the float built-ins of the default runtime against their documented Rust counterparts.

Source of truth for the code: the nightly MIR dump of /repo (the same dump engine M uses). `Runtime`'s built-in
library registers every method through `items::Function::new::<fn(..) {<T as PATH::{constant#N}::Ext>::__ext__}>(const "name", ..)`;
that line ties the script-visible name to the MIR body `PATH::{constant#N}::<impl ..>::__ext__`, which is what the JIT
calls. The body is executed symbolically (tv/mir.py) over z3 floating-point terms; calls into std are given their
IEEE-754 meaning (floor = roundToIntegral toward -oo, ceil = toward +oo, round = to nearest ties away, trunc, abs, sqrt
correctly rounded, the is_* classification predicates), `powf` stays uninterpreted (libm, not correctly rounded: only
the argument order is decided). The property is the assertion  body(x, y) == documented_op(x, y)  for every bit pattern,
NaNs included (all NaNs are one value, as in SMT-LIB).

A counterexample is replayed against the real JIT: the script `fn main(x, y) { x.<name>(..) }` is compiled by the real
compiler and called with the model's bit patterns; it is a violation only if the real result differs from the
documented operation's value on that input.
"""
import os, re, sys, json, time, subprocess
import z3
sys.path.insert(0, os.path.dirname(os.path.abspath(__file__)))
import mir as M

SORT = {"f32": z3.Float32(), "f64": z3.Float64()}
RNE = z3.RNE()

REG = re.compile(r'items::Function::new::<fn\(([^)]*)\)(?: -> ([^ {]+))? \{<([\w:<>]+) as ([\w:]+::\{constant#\d+\})::Ext>::__ext__\}.*?\(const "(\w+)"')


def registrations(text):
    """(receiver type, script name) -> (parameter types, return type, MIR path prefix) for every registered method whose
    receiver is f32 or f64"""
    out = {}
    for m in REG.finditer(text):
        params, ret, recv, path, name = m.groups()
        if recv in SORT:
            out[(recv, name)] = ([p.strip() for p in params.split(",") if p.strip()], ret or "()", path)
    return out


def spec(ty, name, x, y):
    rti = z3.fpRoundToIntegral
    table = {
        "floor": lambda: rti(z3.RTN(), x),
        "ceil": lambda: rti(z3.RTP(), x),
        "round": lambda: rti(z3.RNA(), x),
        "abs": lambda: z3.fpAbs(x),
        "sqrt": lambda: z3.fpSqrt(RNE, x),
        "is_nan": lambda: z3.fpIsNaN(x),
        "is_infinite": lambda: z3.fpIsInf(x),
        "is_finite": lambda: z3.And(z3.Not(z3.fpIsNaN(x)), z3.Not(z3.fpIsInf(x))),
        "pow": lambda: powf_uf(ty)(x, y),
    }
    return table[name]() if name in table else None


_UF = {}


def powf_uf(ty):
    if ty not in _UF:
        _UF[ty] = z3.Function(f"powf_{ty}", SORT[ty], SORT[ty], SORT[ty])
    return _UF[ty]


class FInterp(M.Interp):
    """mir.Interp + float constants + IEEE models of the std float methods"""

    def operand(self, o, env, f):
        m = re.fullmatch(r"const (-?(?:\d+\.?\d*(?:[eE][-+]?\d+)?|inf|NaN))_?(f32|f64)", o.strip())
        if m:
            return M.Scalar(z3.FPVal(float(m.group(1)), SORT[m.group(2)]), m.group(2))
        return super().operand(o, env, f)

    def call(self, callee, argv, depth):
        m = re.fullmatch(r"(?:std|core)::f(?:32|64)::<impl (f32|f64)>::(\w+)", callee)
        if m:
            ty, op = m.groups()
            a = [v.get() if isinstance(v, M.Ref) else v for v in argv]
            x = a[0].t
            rti = z3.fpRoundToIntegral
            if op in ("floor", "ceil", "round", "round_ties_even", "trunc"):
                mode = {"floor": z3.RTN(), "ceil": z3.RTP(), "round": z3.RNA(), "round_ties_even": z3.RNE(), "trunc": z3.RTZ()}[op]
                return M.Scalar(rti(mode, x), ty)
            if op == "abs":
                return M.Scalar(z3.fpAbs(x), ty)
            if op == "sqrt":
                return M.Scalar(z3.fpSqrt(RNE, x), ty)
            if op == "is_nan":
                return M.Scalar(z3.fpIsNaN(x), "bool")
            if op == "is_infinite":
                return M.Scalar(z3.fpIsInf(x), "bool")
            if op == "is_finite":
                return M.Scalar(z3.And(z3.Not(z3.fpIsNaN(x)), z3.Not(z3.fpIsInf(x))), "bool")
            if op == "is_sign_negative":
                return M.Scalar(z3.fpIsNegative(x), "bool")
            if op == "is_sign_positive":
                return M.Scalar(z3.fpIsPositive(x), "bool")
            if op == "powf":
                return M.Scalar(powf_uf(ty)(x, a[1].t), ty)
            if op == "copysign":
                y = a[1].t
                return M.Scalar(z3.If(z3.fpIsNegative(y) == z3.fpIsNegative(x), x, z3.fpNeg(x)), ty)
            if op in ("min", "max"):
                y = a[1].t
                return M.Scalar((z3.fpMin if op == "min" else z3.fpMax)(x, y), ty)
            if op == "mul_add":
                return M.Scalar(z3.fpFMA(RNE, x, a[1].t, a[2].t), ty)
            raise M.Unsupported(f"std float method {op} (no IEEE model in engine B)")
        return super().call(callee, argv, depth)


def bits(model, ty, v):
    x = model.eval(v, model_completion=True)
    if isinstance(x, z3.FPNumRef) and x.isNaN():
        return 0x7fc00000 if ty == "f32" else 0x7ff8000000000000
    return z3.simplify(z3.fpToIEEEBV(x)).as_long()


def from_bits(ty, b):
    w = 32 if ty == "f32" else 64
    return z3.fpBVToFP(z3.BitVecVal(b, w), SORT[ty])


def check_all(mir_text, repo, extract, work, timeout_ms=60000):
    """returns (rows, seconds): one row per registered float method"""
    t0 = time.time()
    regs = registrations(mir_text)
    mir = M.Mir(mir_text, repo)
    rows = []
    for (ty, name), (params, ret, path) in sorted(regs.items()):
        row = {"type": ty, "name": name, "params": params, "ret": ret, "status": "ok", "queries": 0, "solver_s": 0.0}
        rows.append(row)
        x, y = z3.FP("x", SORT[ty]), z3.FP("y", SORT[ty])
        want = spec(ty, name, x, y)
        if want is None:
            row["status"] = "no-spec"           # a built-in this engine has no documented counterpart for (e.g. to_string)
            continue
        bodies = [f for k, v in mir.fns.items() for f in v if k.startswith(path + "::<impl") and k.endswith("::__ext__")]
        if len(bodies) != 1:
            row["status"], row["why"] = "inconclusive", f"{len(bodies)} MIR bodies for {path}"
            continue
        f = bodies[0]
        it = FInterp(mir, True, {})
        env = {}
        for p, v in zip(f["params"], [x, y]):
            env[p] = M.Scalar(v, ty)
        try:
            got = it.run(f, "bb0", env)
        except (M.Unsupported, M.Loud) as e:
            row["status"], row["why"] = "inconclusive", f"MIR body not encodable: {e}"
            continue
        if it.loud_conds:
            # a built-in that can panic on some argument (arithmetic overflow checks and the like)
            row["loud"] = [d for d, _ in it.loud_conds]
        g = got.t
        s = z3.Solver()
        s.set("timeout", timeout_ms)
        s.add(g != want)
        q0 = time.time()
        r = s.check()
        row["queries"] += 1
        row["solver_s"] += time.time() - q0
        row["body"] = str(z3.simplify(g))[:200]
        if r == z3.unsat:
            continue
        if r != z3.sat:
            row["status"], row["why"] = "inconclusive", "solver: " + str(r)
            continue
        mdl = s.model()
        argb = [bits(mdl, ty, x), bits(mdl, ty, y)]
        # the documented operation's value on that input (concrete evaluation of the spec term)
        cx, cy = from_bits(ty, argb[0]), from_bits(ty, argb[1])
        wv = z3.simplify(spec(ty, name, cx, cy))
        gv = z3.simplify(z3.substitute(g, (x, cx), (y, cy)))
        row["counterexample"] = {"args": [hex(b) for b in argb], "documented": str(wv), "body": str(gv)}
        if name == "pow":
            # uninterpreted powf: a difference means the wrapper is not powf(self, exp); replay on a fixed asymmetric pair
            argb = [bits_of_float(ty, 2.0), bits_of_float(ty, 3.0)]
            wv = z3.FPVal(8.0, SORT[ty])
        # replay on the real JIT
        os.makedirs(work, exist_ok=True)
        script = os.path.join(work, f"builtin_{ty}_{name}.roto")
        rt = "bool" if ret == "bool" else ty
        call = f"x.{name}(y)" if len(params) == 2 else f"x.{name}()"
        open(script, "w").write(f"fn main(x: {ty}, y: {ty}) -> {rt} {{\n    {call}\n}}\n")
        sig = f"{ty},{ty}->{rt}"
        p = subprocess.run([extract, "run", script, "main", sig] + [hex(b) for b in argb], capture_output=True, text=True, timeout=120)
        try:
            real = json.loads(p.stdout.strip().split("\n")[-1])
        except Exception:
            real = {"error": "unparseable extractor output", "stdout": p.stdout[-300:], "stderr": p.stderr[-300:]}
        row["replay"] = {"script": open(script).read(), "sig": sig, "args": [hex(b) for b in argb], "real": real}
        if "ret" not in real:
            row["status"], row["why"] = "inconclusive", f"replay failed: {str(real)[:200]}"
            continue
        rb = int(real["ret"], 16)
        row["replay"]["documented"] = str(wv)
        if rt == "bool":
            row["replay"]["documented_bits"] = 1 if z3.is_true(wv) else 0
        else:
            row["replay"]["documented_bits"] = bits(z3.Model(), ty, wv) if False else _bits_of_value(ty, wv)
            row["replay"]["real_value"] = str(z3.simplify(from_bits(ty, rb)))
        same = same_result(ty, rt, rb, row["replay"]["documented_bits"])
        if same:
            row["status"], row["why"] = "inconclusive", "solver reports a difference that the real JIT does not show on replay (encoder problem): not reported"
        else:
            row["status"] = "violation"
            row["detail"] = (f"{ty}.{name}: documented result {wv} but the built-in returns {row['replay'].get('real_value', hex(rb))} "
                             f"for arguments {[hex(b) for b in argb[:len(params)]]}")
    return rows, time.time() - t0


def _bits_of_value(ty, v):
    v = z3.simplify(v)
    if isinstance(v, z3.FPNumRef) and v.isNaN():
        return 0x7fc00000 if ty == "f32" else 0x7ff8000000000000
    return z3.simplify(z3.fpToIEEEBV(v)).as_long()


def is_nan_bits(ty, b):
    if ty == "f32":
        return (b >> 23) & 0xff == 0xff and b & 0x7fffff != 0
    return (b >> 52) & 0x7ff == 0x7ff and b & ((1 << 52) - 1) != 0


def same_result(ty, rt, real_bits, documented_bits):
    """bit-for-bit, except that every NaN is the same value"""
    if rt == "bool":
        return (real_bits & 1) == documented_bits
    if is_nan_bits(ty, real_bits) and is_nan_bits(ty, documented_bits):
        return True
    return real_bits == documented_bits


def replay_again(extract, work, rep):
    """re-run a stored counterexample on the real JIT; True if the built-in still differs from the documented value"""
    os.makedirs(work, exist_ok=True)
    script = os.path.join(work, "replay_builtin.roto")
    open(script, "w").write(rep["script"])
    p = subprocess.run([extract, "run", script, "main", rep["sig"]] + rep["args"], capture_output=True, text=True, timeout=120)
    print("real JIT run:", p.stdout.strip()[-300:])
    try:
        real = json.loads(p.stdout.strip().split("\n")[-1])
        rb = int(real["ret"], 16)
    except Exception:
        return None
    ty = rep["sig"].split(",")[0] if "," in rep["sig"] else "f64"
    rt = rep["sig"].split("->")[1]
    print("documented:", rep.get("documented"), hex(rep["documented_bits"]), "real:", hex(rb))
    return not same_result(ty, rt, rb, rep["documented_bits"])


# ---------------------------------------------------------------------------- address built-ins: pure delegations
# IpAddr / Prefix methods are documented as the std / inetnum operation of the same name. Their operand types have no
# useful SMT theory, so the operands are values of uninterpreted sorts and every std / inetnum function is an
# uninterpreted function named after its MIR callee: z3 decides  body(self, other) == documented_callee(self, other),
# i.e. "the wrapper is that function applied to its parameters in that order and nothing else".
DELEGATIONS = {
    ("std::net::IpAddr", "eq"): (r"<std::net::IpAddr as (?:std::cmp::)?PartialEq>::eq", [0, 1], "bool"),
    ("std::net::IpAddr", "is_ipv4"): (r"std::net::IpAddr::is_ipv4", [0], "bool"),
    ("std::net::IpAddr", "is_ipv6"): (r"std::net::IpAddr::is_ipv6", [0], "bool"),
    ("std::net::IpAddr", "to_canonical"): (r"std::net::IpAddr::to_canonical", [0], "IpAddr"),
    ("Prefix", "addr"): (r"(?:inetnum::addr::)?Prefix::addr", [0], "IpAddr"),
    ("Prefix", "min_addr"): (r"(?:inetnum::addr::)?Prefix::min_addr", [0], "IpAddr"),
    ("Prefix", "max_addr"): (r"(?:inetnum::addr::)?Prefix::max_addr", [0], "IpAddr"),
    ("Prefix", "len"): (r"(?:inetnum::addr::)?Prefix::len", [0], "u8"),
    ("Prefix", "eq"): (r"<(?:inetnum::addr::)?Prefix as (?:std::cmp::)?PartialEq>::eq", [0, 1], "bool"),
}
# concrete probes for the replay of a delegation mismatch: (script body returning bool, expected answer) - the expected
# answers are those of Rust's std::net / inetnum (IPv4 never equals IPv6; to_canonical unmaps ::ffff:a.b.c.d; ...)
PROBES = {
    ("std::net::IpAddr", "eq"): [("1.2.3.4.eq(1.2.3.4)", True), ("1.2.3.4.eq(1.2.3.5)", False), ("1.2.3.4.eq(::ffff:102:304)", False),
                                 ("::ffff:102:304.eq(1.2.3.4)", False), ("::1.eq(::1)", True), ("0.0.0.0.eq(::)", False)],
    ("std::net::IpAddr", "is_ipv4"): [("1.2.3.4.is_ipv4()", True), ("::ffff:102:304.is_ipv4()", False), ("::.is_ipv4()", False)],
    ("std::net::IpAddr", "is_ipv6"): [("1.2.3.4.is_ipv6()", False), ("::ffff:102:304.is_ipv6()", True), ("::1.is_ipv6()", True)],
    ("std::net::IpAddr", "to_canonical"): [("::ffff:102:304.to_canonical() == 1.2.3.4", True), ("1.2.3.4.to_canonical() == 1.2.3.4", True),
                                           ("::1.to_canonical() == ::1", True), ("::ffff:102:304.to_canonical() == ::ffff:102:304", False)],
    ("Prefix", "addr"): [("(10.1.2.0 / 24).addr() == 10.1.2.0", True), ("(2001:db8:: / 32).addr() == 2001:db8::", True)],
    ("Prefix", "min_addr"): [("(10.1.2.0 / 24).min_addr() == 10.1.2.0", True)],
    ("Prefix", "max_addr"): [("(10.1.2.0 / 24).max_addr() == 10.1.2.255", True), ("(10.0.0.0 / 8).max_addr() == 10.255.255.255", True)],
    ("Prefix", "len"): [("(10.1.2.0 / 24).len() == 24", True), ("(0.0.0.0 / 0).len() == 0", True), ("(2001:db8:: / 32).len() == 32", True)],
    ("Prefix", "eq"): [("(10.1.2.0 / 24).eq(10.1.2.0 / 24)", True), ("(10.1.2.0 / 24).eq(10.1.2.0 / 25)", False), ("(10.1.2.0 / 24).eq(10.1.3.0 / 24)", False)],
}
_SORTS, _UFS = {}, {}


def usort(name):
    if name not in _SORTS:
        _SORTS[name] = z3.DeclareSort(name)
    return _SORTS[name]


def zsort(kind):
    return z3.BoolSort() if kind == "bool" else (z3.BitVecSort(8) if kind == "u8" else usort(kind))


def short_type(t):
    return "IpAddr" if t.endswith("IpAddr") else ("Prefix" if t.endswith("Prefix") else t)


class DInterp(M.Interp):
    """every call is an uninterpreted function of its (dereferenced) arguments; the result sort comes from a table of
    the std / inetnum functions this engine knows the signature of"""
    RET = [(r"PartialEq>::(eq|ne)$", "bool"), (r"::is_ipv[46]$|::is_loopback$|::is_unspecified$|::is_multicast$", "bool"),
           (r"IpAddr::to_canonical$|Prefix::(addr|min_addr|max_addr)$", "IpAddr"), (r"Prefix::len$", "u8")]

    def call(self, callee, argv, depth):
        args = []
        for v in argv:
            while isinstance(v, M.Ref):
                v = v.get()
            if not isinstance(v, M.Scalar):
                raise M.Unsupported(f"call {callee} with a non-scalar argument")
            args.append(v.t)
        kind = next((k for rx, k in self.RET if re.search(rx, callee)), None)
        if kind is None:
            raise M.Unsupported(f"call {callee} (no signature known to engine B)")
        key = (callee, tuple(str(a.sort()) for a in args), kind)
        if key not in _UFS:
            _UFS[key] = z3.Function(re.sub(r"[^A-Za-z0-9_]", "_", callee) + f"_{len(_UFS)}", *[a.sort() for a in args], zsort(kind))
        return M.Scalar(_UFS[key](*args), kind)


def registrations_any(text):
    out = {}
    for m in REG.finditer(text):
        params, ret, recv, path, name = m.groups()
        out[(recv, name)] = ([p.strip() for p in params.split(",") if p.strip()], ret or "()", path)
    return out


def check_delegations(mir_text, repo, extract, work, timeout_ms=30000):
    regs = registrations_any(mir_text)
    mir = M.Mir(mir_text, repo)
    rows = []
    for (recv, name), (callee_rx, order, kind) in sorted(DELEGATIONS.items()):
        row = {"type": short_type(recv), "name": name, "status": "ok", "queries": 0}
        rows.append(row)
        key = next((k for k in regs if k[1] == name and short_type(k[0]) == short_type(recv)), None)
        if key is None:
            row["status"], row["why"] = "inconclusive", f"{short_type(recv)}.{name} is not among the registrations found in the MIR dump"
            continue
        params, ret, path = regs[key]
        bodies = [f for k, v in mir.fns.items() for f in v if k.startswith(path + "::<impl") and k.endswith("::__ext__")]
        if len(bodies) != 1:
            row["status"], row["why"] = "inconclusive", f"{len(bodies)} MIR bodies for {path}"
            continue
        f = bodies[0]
        syms = [z3.Const(f"p{i}", usort(short_type(p))) for i, p in enumerate(params)]
        it = DInterp(mir, True, {})
        env = {p: M.Scalar(v, short_type(t)) for p, v, t in zip(f["params"], syms, params)}
        try:
            got = it.run(f, "bb0", env)
        except (M.Unsupported, M.Loud) as e:
            row["status"], row["why"] = "inconclusive", f"MIR body not encodable: {e}"
            continue
        # the documented operation: the UF of the callee the body is expected to call, applied to the parameters in order
        cands = [(k, uf) for k, uf in _UFS.items() if re.fullmatch(callee_rx, k[0]) and k[2] == kind and len(k[1]) == len(order)]
        row["body"] = str(got.t)[:160]
        if not cands:
            want_ok = False
        else:
            s = z3.Solver()
            s.set("timeout", timeout_ms)
            s.add(z3.And([got.t != uf(*[syms[i] for i in order]) for _, uf in cands]))
            row["queries"] += 1
            want_ok = s.check() == z3.unsat
        if want_ok:
            continue
        # not the documented delegation: confirm on concrete probes against the real JIT
        os.makedirs(work, exist_ok=True)
        failed = []
        for i, (expr, expected) in enumerate(PROBES.get((recv, name), [])):
            script = os.path.join(work, f"probe_{short_type(recv)}_{name}_{i}.roto")
            open(script, "w").write(f"fn main() -> bool {{\n    {expr}\n}}\n")
            p = subprocess.run([extract, "run", script, "main", "->bool"], capture_output=True, text=True, timeout=120)
            try:
                real = int(json.loads(p.stdout.strip().split("\n")[-1])["ret"], 16) == 1
            except Exception:
                continue
            if real != expected:
                failed.append({"script": open(script).read(), "expected": expected, "real": real})
        row["probes_failed"] = failed
        if failed:
            row["status"] = "violation"
            row["detail"] = (f"{short_type(recv)}.{name} is not its documented operation ({row['body']}): `{failed[0]['script'].splitlines()[1].strip()}` "
                             f"gives {failed[0]['real']}, Rust's counterpart gives {failed[0]['expected']}")
            row["replay"] = {"script": failed[0]["script"], "sig": "->bool", "args": [], "documented": str(failed[0]["expected"]),
                             "documented_bits": 1 if failed[0]["expected"] else 0}
        else:
            row["status"], row["why"] = "inconclusive", f"the wrapper body ({row['body']}) is not the documented delegation, but no concrete probe shows a different answer"
    return rows


def bits_of_float(ty, v):
    return z3.simplify(z3.fpToIEEEBV(z3.FPVal(v, SORT[ty]))).as_long()


if __name__ == "__main__":
    build = os.environ.get("VERIF_BUILD") or os.path.join(os.path.dirname(os.path.dirname(os.path.abspath(__file__))), "build")
    text = open(os.path.join(build, "mir", "roto.mir")).read()
    rows, secs = check_all(text, os.environ.get("VERIF_REPO", "/repo"), os.path.join(build, "extract", "debug", "extract"), os.path.join(build, "builtins"))
    for r in rows:
        print(r["type"], r["name"], r["status"], r.get("why", ""), r.get("detail", ""), r.get("body", "")[:80])
    print(round(secs, 1), "s")
    for r in check_delegations(text, os.environ.get("VERIF_REPO", "/repo"), os.path.join(build, "extract", "debug", "extract"), os.path.join(build, "builtins")):
        print(r["type"], r["name"], r["status"], r.get("why", ""), r.get("detail", ""), r.get("body", "")[:100])
