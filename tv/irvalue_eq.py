"""Engine M, unit obligation on `impl PartialEq for IrValue` (src/lir/value.rs), the comparison behind the evaluator's
IntCmp/Eq paths: executed from the MIR dump for every ordered pair of variants with symbolic payloads.

  * same variant:  if `eq` completes, its answer is the equality of the payloads (IEEE equality for floats);
  * different variants whose payloads have the same width and are integer-like (Bool/U8/I8, U16/I16,
    U32/I32/Char/Asn, U64/I64/Pointer) - the pairs that really meet in the evaluator, because a value that went through
    memory comes back as the unsigned integer of its width while literals keep their own variant: `eq` must either stop
    loudly or answer the equality of the bit patterns, which is what the compiled code's `icmp eq` computes.
    Completing with `false` for equal bit patterns is "the evaluator completes with a different value" (C20).
  * other mixed pairs have no counterpart in compiled code; what `eq` does there is recorded, not judged.

A counterexample for a pair with a script template (Char/U32, Asn/U32) is replayed: real evaluator vs real JIT.
"""
import json, os, re, subprocess, sys, time
import z3
sys.path.insert(0, os.path.dirname(os.path.abspath(__file__)))
import mir as M

PAYLOAD = {"Bool": ("bool", 8), "U8": ("u8", 8), "U16": ("u16", 16), "U32": ("u32", 32), "U64": ("u64", 64), "I8": ("i8", 8), "I16": ("i16", 16),
           "I32": ("i32", 32), "I64": ("i64", 64), "F32": ("f32", 32), "F64": ("f64", 64), "Char": ("char", 32), "Asn": ("Asn", 32), "Pointer": ("usize", 64)}
INTLIKE = {"Bool", "U8", "I8", "U16", "I16", "U32", "I32", "Char", "Asn", "U64", "I64", "Pointer"}

TEMPLATES = {
    # (literal's variant, variant read back from memory): script, the value both sides hold
    ("U32", "Char"): "fn main() -> bool {\n    let r = { c: 'a', n: 1 };\n    r.c == 'a'\n}\n",
    ("Char", "U32"): "fn main() -> bool {\n    let r = { c: 'a', n: 1 };\n    'a' == r.c\n}\n",
    ("U32", "Asn"): "fn main() -> bool {\n    let r = { a: AS65000, n: 1 };\n    r.a == AS65000\n}\n",
    ("Asn", "U32"): "fn main() -> bool {\n    let r = { a: AS65000, n: 1 };\n    AS65000 == r.a\n}\n",
}


def sym(name, variant):
    ty, w = PAYLOAD[variant]
    if ty == "bool":
        return M.Scalar(z3.Bool(name), "bool"), z3.If(z3.Bool(name), z3.BitVecVal(1, 8), z3.BitVecVal(0, 8))
    if ty in ("f32", "f64"):
        v = z3.FP(name, z3.Float32() if ty == "f32" else z3.Float64())
        return M.Scalar(v, ty), None
    v = z3.BitVec(name, w)
    return M.Scalar(v, ty if ty in M.INT_BITS or ty == "char" else ("u32" if ty == "Asn" else "u64")), v


class EqInterp(M.Interp):
    def call(self, callee, argv, depth):
        # `Asn` is a transparent wrapper around u32 with a derived PartialEq
        if re.fullmatch(r"<&?(?:inetnum::asn::)?Asn as (?:std::cmp::)?PartialEq>::(eq|ne)", callee):
            a, b = [v.get() if isinstance(v, M.Ref) else v for v in argv]
            a, b = [v.get() if isinstance(v, M.Ref) else v for v in (a, b)]
            r = a.t == b.t
            return M.Scalar(r if callee.endswith("::eq") else z3.Not(r), "bool")
        return super().call(callee, argv, depth)


def eq_body(mir):
    c = [b for k, v in mir.fns.items() for b in v if re.search(r"lir::value::<impl at src/lir/value\.rs:[\d: ]+>::eq$", k)
         and b["types"].get("_1", "").endswith("IrValue")]
    if len(c) != 1:
        raise M.Unsupported(f"{len(c)} MIR bodies for <IrValue as PartialEq>::eq")
    return c[0]


def check(mir, extract, work, timeout_ms=30000):
    t0 = time.time()
    f = eq_body(mir)
    variants = mir.enums["IrValue"]
    rows, queries = [], 0
    for A in variants:
        for B in variants:
            row = {"left": A, "right": B, "status": "ok"}
            rows.append(row)
            (sa, ba), (sb, bb) = sym("x", A), sym("y", B)
            it = EqInterp(mir, True, {})
            a, b = M.EnumV("IrValue", A, [sa]), M.EnumV("IrValue", B, [sb])
            try:
                r = it.run(f, "bb0", {f["params"][0]: M.Ref(lambda a=a: a), f["params"][1]: M.Ref(lambda b=b: b)})
                row["outcome"] = "completes"
            except M.Loud as e:
                row["outcome"] = "stops loudly"
                continue
            except M.Unsupported as e:
                row["status"], row["why"] = "inconclusive", f"MIR of IrValue::eq not encodable for ({A}, {B}): {e}"
                continue
            if not isinstance(r, M.Scalar) or not z3.is_bool(r.t):
                row["status"], row["why"] = "inconclusive", "eq did not return a bool term"
                continue
            if A == B:
                want = (z3.fpEQ(sa.t, sb.t) if PAYLOAD[A][0] in ("f32", "f64") else sa.t == sb.t)
            elif A in INTLIKE and B in INTLIKE and PAYLOAD[A][1] == PAYLOAD[B][1]:
                want = ba == bb
            else:
                row["outcome"] = "completes (operands of types that never meet in compiled code: not judged)"
                continue
            s = z3.Solver()
            s.set("timeout", timeout_ms)
            s.add(r.t != want)
            queries += 1
            res = s.check()
            if res == z3.unsat:
                continue
            if res != z3.sat:
                row["status"], row["why"] = "inconclusive", "solver: " + str(res)
                continue
            m = s.model()
            row["counterexample"] = {"x": str(m.eval(sa.t, model_completion=True)), "y": str(m.eval(sb.t, model_completion=True)),
                                     "eq_answers": str(m.eval(r.t, model_completion=True)), "bit_patterns_equal": str(m.eval(want, model_completion=True))}
            tpl = TEMPLATES.get((A, B))
            if tpl is None:
                row["status"], row["why"] = "inconclusive", (f"IrValue::eq({A}, {B}) completes with an answer different from the equality of the operands "
                                                             f"({row['counterexample']}); no script template reaches this pair, so it is not replayed")
                continue
            os.makedirs(work, exist_ok=True)
            script = os.path.join(work, f"irvalue_eq_{A}_{B}.roto")
            open(script, "w").write(tpl)
            rep = replay(extract, script)
            row["replay"] = dict(rep, script=tpl)
            if rep.get("differs"):
                row["status"] = "violation"
                row["detail"] = (f"IrValue::eq({A}(x), {B}(y)) completes with {row['counterexample']['eq_answers']} although the bit patterns are equal: "
                                 f"the evaluator completes with {rep['evaluator']} where the compiled code returns {rep['jit']}")
            else:
                row["status"], row["why"] = "inconclusive", f"solver counterexample for ({A}, {B}) not reproduced by the real evaluator/JIT: {rep}"
    return rows, queries, time.time() - t0


def replay(extract, script):
    try:
        e = subprocess.run([extract, "eval", script, ""], capture_output=True, text=True, timeout=60)
        ev = json.loads(e.stdout.strip().split("\n")[-1]).get("eval")
        j = subprocess.run([extract, "run", script, "main", "->bool"], capture_output=True, text=True, timeout=60)
        jit = json.loads(j.stdout.strip().split("\n")[-1]).get("ret")
    except Exception as ex:
        return {"error": repr(ex)[:200]}
    differs = ev not in (None, "loud-stop", "none", "other") and jit is not None and int(ev, 16) != int(jit, 16)
    return {"evaluator": ev, "jit": jit, "differs": differs}


if __name__ == "__main__":
    build = os.environ.get("VERIF_BUILD") or os.path.join(os.path.dirname(os.path.dirname(os.path.abspath(__file__))), "build")
    repo = os.environ.get("VERIF_REPO", "/repo")
    mir = M.Mir(open(os.path.join(build, "mir", "roto.mir")).read(), repo)
    rows, q, secs = check(mir, os.path.join(build, "extract", "debug", "extract"), os.path.join(build, "irvalue_eq"))
    from collections import Counter
    print(Counter((r["status"], r.get("outcome", "")[:24]) for r in rows), q, "queries", round(secs, 1), "s")
    for r in rows:
        if r["status"] != "ok":
            print(r["left"], r["right"], r["status"], r.get("why", r.get("detail", ""))[:300])
