"""Corpus generator: typed Roto programs (as lang.Program ASTs) in families F1..F9 of DESIGN.md section 3.3.
Systematic cells are fixed; the random part is driven by the seed."""
import random
from lang import *

INT_T = ["u8", "u16", "u32", "u64", "i8", "i16", "i32", "i64"]
FLT_T = ["f32", "f64"]
ARITH = ["+", "-", "*", "/", "%"]
CMP = ["==", "!=", "<", "<=", ">", ">="]


def fn_main(params, ret, stmts, expr):
    return FnDef("main", params, ret, Block(stmts, expr, ret))


def P(name, fam, prog, modes):
    prog.meta = {"name": name, "family": fam, "modes": set(modes)}
    return prog


def maxv(t):
    """largest literal of type t that the generator uses. Literals above i64::MAX are rejected by the compiler
    ("number too large to fit in target type"), so u64 stops at i64::MAX."""
    w, s = INTS[t]
    return (1 << (w - 1)) - 1 if s else min((1 << w) - 1, (1 << 63) - 1)


def minv(t):
    """smallest literal used: i64::MIN cannot be spelled (its magnitude does not fit i64), so i64 stops at MIN+1"""
    w, s = INTS[t]
    if not s:
        return 0
    return -(1 << (w - 1)) + (1 if w == 64 else 0)


# ------------------------------------------------------------------------------------------- F1 operator cells
def f1_cells():
    out = []
    for t in INT_T + FLT_T:
        a, b = Var("a", t), Var("b", t)
        ops = ARITH if t in INT_T else ["+", "-", "*", "/"]
        for op in ops:
            modes = {"value"} | ({"trap"} if op in "/%" and t in INT_T else set())
            out.append(P(f"f1_{t}_{opname(op)}", "F1", Program([fn_main([("a", t), ("b", t)], t, [], Bin(op, a, b, t))]), modes))
            # compound assignment form
            x = Var("x", t)
            out.append(P(f"f1_{t}_{opname(op)}_assign", "F1",
                         Program([fn_main([("a", t), ("b", t)], t, [Let("x", t, a), Assign(x, b, op)], x)]), modes))
        for op in CMP:
            out.append(P(f"f1_{t}_{opname(op)}", "F1", Program([fn_main([("a", t), ("b", t)], "bool", [], Bin(op, a, b, "bool"))]), {"value"}))
        if t in FLT_T or INTS[t][1]:
            out.append(P(f"f1_{t}_neg", "F1", Program([fn_main([("a", t)], t, [], Un("-", a))]), {"value"}))
    # operand evaluation order is observable without host calls when one operand assigns to a variable the other reads
    for t in ["i32", "u8", "i64"]:
        a, b = Var("a", t), Var("b", t)
        x = Var("x", t)
        for op in ["-", "+", "*", "<", "==", ">="]:
            rt = "bool" if op in CMP else t
            rhs_assigns = Block([Assign(x, Bin("+", x, b, t))], x, t)
            out.append(P(f"f1_{t}_{opname(op)}_left_read_before_right_assign", "F1", Program([fn_main([("a", t), ("b", t)], rt, [Let("x", t, a)], Bin(op, x, rhs_assigns, rt))]), {"value"}))
            lhs_assigns = Block([Assign(x, Bin("-", x, b, t))], x, t)
            out.append(P(f"f1_{t}_{opname(op)}_left_assign_before_right_read", "F1", Program([fn_main([("a", t), ("b", t)], rt, [Let("x", t, a)], Bin(op, lhs_assigns, x, rt))]), {"value"}))
        helper = FnDef("sub2", [("p", t), ("q", t)], t, Block([], Bin("-", Var("p", t), Var("q", t), t), t))
        out.append(P(f"f1_{t}_call_args_read_order", "F1", Program([helper, fn_main([("a", t), ("b", t)], t, [Let("x", t, a)], Call("sub2", [x, Block([Assign(x, Bin("*", x, b, t))], x, t)], t))]), {"value"}))
    a, b = Var("a", "bool"), Var("b", "bool")
    for op in ["&&", "||", "==", "!="]:
        out.append(P(f"f1_bool_{opname(op)}", "F1", Program([fn_main([("a", "bool"), ("b", "bool")], "bool", [], Bin(op, a, b, "bool"))]), {"value"}))
    out.append(P("f1_bool_not", "F1", Program([fn_main([("a", "bool")], "bool", [], Un("!", a))]), {"value"}))
    out.append(P("f1_bool_notnot", "F1", Program([fn_main([("a", "bool")], "bool", [], Un("!", Un("!", a)))]), {"value"}))
    a, b = Var("a", "char"), Var("b", "char")
    for op in ["==", "!="]:
        out.append(P(f"f1_char_{opname(op)}", "F1", Program([fn_main([("a", "char"), ("b", "char")], "bool", [], Bin(op, a, b, "bool"))]), {"value"}))
    out.append(P("f1_char_lit", "F1", Program([fn_main([("a", "char"), ("b", "char")], "bool", [], Bin("==", a, Lit("char", "x"), "bool"))]), {"value"}))
    return out


def opname(op):
    return {"+": "add", "-": "sub", "*": "mul", "/": "div", "%": "rem", "==": "eq", "!=": "ne", "<": "lt", "<=": "le", ">": "gt",
            ">=": "ge", "&&": "and", "||": "or"}[op]


# ------------------------------------------------------------------------------------------- F2 literal spellings
def f2_cells():
    out = []
    k = 0

    def add(t, spelling, value, annotate_let=False):
        nonlocal k
        k += 1
        a = Var("a", t)
        lit = Lit(t, value, spelling=spelling)
        if annotate_let:
            prog = Program([fn_main([("a", t)], t, [Let("x", t, lit, annotate=True)], Bin("+", a, Var("x", t), t))])
        else:
            prog = Program([fn_main([("a", t)], t, [], Bin("+", a, lit, t))])
        out.append(P(f"f2_{t}_{k}", "F2", prog, {"value"}))

    for t in INT_T:
        mx = maxv(t)
        add(t, "0", 0)
        add(t, "1", 1)
        add(t, str(mx), mx)
        add(t, f"{mx}{t}", mx)
        add(t, f"1_0{t}", 10)
        add(t, "1__2_", 12)
        add(t, "0x7F", 0x7F)
        add(t, "0x0a", 10)
        add(t, "0xfF", 0xFF)
        if INTS[t][0] >= 32:
            add(t, "0x7fffffff", 0x7fffffff)
        if INTS[t][0] == 64 or t == "u32":
            add(t, "0x80000000", 0x80000000)
            add(t, "0xFFFFFFFF", 0xFFFFFFFF)
        if INTS[t][0] == 64:
            add(t, "0x100000000", 0x100000000)
            add(t, "0x7FFFFFFFFFFFFFFF", 0x7FFFFFFFFFFFFFFF)
        add(t, "7", 7, annotate_let=True)
        if INTS[t][1]:
            add(t, "-1", -1)
            add(t, f"-{-minv(t)}", minv(t))
            add(t, "-0x10", -16)
    for t in FLT_T:
        add(t, "0.0", 0.0)
        add(t, "10.", 10.0)
        add(t, "10e2", 1000.0)
        add(t, "5E-1", 0.5)
        add(t, "1E2", 100.0)
        add(t, "2.5E3", 2500.0)
        add(t, "1e0", 1.0)
        add(t, "2E+1", 20.0)
        add(t, "1_234.5", 1234.5)
        add(t, f"2.5{t}", 2.5)
        add(t, "1.5e+1", 15.0)
        add(t, "-0.25", -0.25)
        add(t, "3.0", 3.0, annotate_let=True)
        # integer-spelled literals with a float suffix
        add(t, f"10{t}", 10.0)
        add(t, f"1_0{t}", 10.0)
        add(t, f"16777217{t}", 16777217.0)
    # string and char escapes, line continuation (language reference, "Escape sequences")
    em = lambda e: Host("emit_str", [e], "unit")
    i32 = "i32"
    for nm, spelling, text in [
            ("simple", r"a\tb\nc\\d\"e\'f\rg", "a\tb\nc\\d\"e'f\rg"),
            ("hex_unicode", r"\x41\u{42}\u{e9}z", "AB\u00e9z"),
            ("continuation", "ab\\\n   cd", "abcd"),
            ("continuation_blank_line", "ab\\\n\n   cd", "abcd"),
            ("continuation_tabs_and_lines", "ab\\\n\t \n\t cd", "abcd"),
            ("continuation_at_start", "\\\n  x", "x"),
            ("continuation_then_escape", "p\\\n   \\tq", "p\tq")]:
        out.append(P(f"f2_string_{nm}", "F2", Program([fn_main([("a", i32)], i32, [ExprStmt(em(StrLit(text, spelling=spelling)))], Var("a", i32))]), {"trace", "value"}))
    # f-strings: `{{` / `}}` denote single braces wherever they stand in the literal text, next to interpolations and to
    # non-ASCII text (sixth seeding round: `}}` was only collapsed in parts that also contain `{{`)
    av = Var("a", i32)
    for nm, parts in [("close_only", ["}"]), ("open_only", ["{"]), ("braces_around_value", ["{", av, "}"]), ("close_after_unicode", ["\u00e9", av, "\u00fc}\u00df"]),
                      ("mixed", ["a}b{c", av, "}}"]), ("empty_braces", ["{}"]), ("close_then_value_then_open", ["}", av, "{"]), ("value_between_closes", ["x}", av, "}y"])]:
        out.append(P(f"f2_fstring_{nm}", "F2", Program([fn_main([("a", i32)], i32, [ExprStmt(em(FStr(parts)))], av)]), {"trace", "value"}))
    # unconstrained literals default to i32 / f64
    x = Var("x", "i32")
    out.append(P("f2_default_i32", "F2", Program([fn_main([("a", "bool")], "bool", [Let("x", "i32", Lit("i32", 2147483647, spelling="2147483647"))],
                                                          Bin("<", Bin("+", x, Lit("i32", 1, spelling="1"), "i32"), Lit("i32", 0, spelling="0"), "bool"))]), {"value"}))
    y = Var("y", "f64")
    out.append(P("f2_default_f64", "F2", Program([fn_main([("a", "bool")], "bool", [Let("y", "f64", Lit("f64", 16777217.0, spelling="16777217.0"))],
                                                          Bin("==", Bin("-", y, Lit("f64", 16777216.0, spelling="16777216.0"), "f64"), Lit("f64", 1.0, spelling="1.0"), "bool"))]), {"value"}))
    return out


# ------------------------------------------------------------------------------------------- random expressions (F3)
class G:
    def __init__(self, rng, t, vars_, allow_div=False, effects=False):
        self.r, self.t, self.vars, self.allow_div, self.effects = rng, t, vars_, allow_div, effects
        self.n = 0

    def lit(self, t):
        if t == "bool":
            return Lit("bool", self.r.random() < 0.5)
        if t in INT_T:
            c = self.r.choice([0, 1, 2, 3, 7, maxv(t), maxv(t) - 1, minv(t)] + ([-1] if INTS[t][1] else []))
            return Lit(t, c)
        if t in FLT_T:
            return Lit(t, self.r.choice([0.0, 1.0, 0.5, 2.0, -1.5, 1024.0]))
        raise ValueError(t)

    def leaf(self, t):
        cands = [n for n, vt in self.vars if vt == t]
        if cands and self.r.random() < 0.75:
            v = Var(self.r.choice(cands), t)
            if self.effects and t != "bool" and self.r.random() < 0.5:
                return Host(f"pure_{t}", [v], t)
            return v
        return self.lit(t)

    def expr(self, t, d):
        if d == 0:
            return self.leaf(t)
        r = self.r.random()
        if t == "bool":
            if r < 0.3:
                return Bin(self.r.choice(["&&", "||"]), self.expr("bool", d - 1), self.expr("bool", d - 1), "bool")
            if r < 0.75:
                ot = self.t
                return Bin(self.r.choice(CMP), self.expr(ot, d - 1), self.expr(ot, d - 1), "bool")
            if r < 0.85:
                return Un("!", self.expr("bool", d - 1))
            return self.leaf("bool")
        if self.effects and t in ("i32", "u8", "i64", "u16") and r < 0.12:
            return HostM("msub", self.expr(t, d - 1), [self.expr(t, d - 1)], t)
        if r < 0.5:
            ops = ["+", "-", "*"] + (["/", "%"] if self.allow_div and t in INT_T else []) + (["/"] if t in FLT_T and False else [])
            if t in FLT_T:
                ops = ["+", "-"]
            return Bin(self.r.choice(ops), self.expr(t, d - 1), self.expr(t, d - 1), t)
        if r < 0.7:
            tb = Block([], self.expr(t, d - 1), t)
            eb = Block([], self.expr(t, d - 1), t)
            return If(self.expr("bool", d - 1), tb, eb, t)
        if r < 0.8 and (t in FLT_T or INTS[t][1]):
            return Un("-", self.expr(t, d - 1))
        if r < 0.9:
            self.n += 1
            name = f"t{self.n}"
            inner = G(self.r, self.t, self.vars + [(name, t)], self.allow_div, self.effects)
            inner.n = self.n + 10
            return Block([Let(name, t, self.expr(t, d - 1))], inner.expr(t, d - 1), t)
        return self.leaf(t)


def f3_random(seed, n, depth=3, effects=False, fam="F3"):
    rng = random.Random(seed)
    out = []
    for i in range(n):
        t = rng.choice(INT_T + (FLT_T if i % 5 == 0 else []))
        ret = rng.choice([t, "bool"])
        g = G(rng, t, [("a", t), ("b", t), ("c", t)], allow_div=False, effects=effects)
        e = g.expr(ret, depth)
        modes = {"value"} | ({"trace"} if effects else set())
        out.append(P(f"{fam.lower()}_{seed}_{i}", fam, Program([fn_main([("a", t), ("b", t), ("c", t)], ret, [], e)]), modes))
    return out


# ------------------------------------------------------------------------------------------- F12 random statement programs
def f12_random(seed, n, effects):
    """random straight-line / branching / looping statement sequences over three mutable locals, with early returns;
    loops have constant trip counts <= 3 so that every path stays inside the loop bound"""
    rng = random.Random(seed * 7919 + (1 if effects else 0))
    out = []
    for i in range(n):
        t = rng.choice(["i32", "u8", "i64", "u16", "i8", "u32"])
        g = G(rng, t, [("a", t), ("b", t), ("x", t), ("y", t)], allow_div=False, effects=effects)
        counter = [0]

        def stmts(depth, in_loop):
            k = rng.randint(1, 3)
            res = []
            for _ in range(k):
                r = rng.random()
                v = Var(rng.choice(["x", "y"]), t)
                if r < 0.3:
                    res.append(Assign(v, g.expr(t, 1)))
                elif r < 0.5:
                    res.append(Assign(v, g.expr(t, 1), rng.choice(["+", "-", "*"])))
                elif r < 0.7 and depth > 0:
                    els = Block(stmts(depth - 1, in_loop), None, "unit") if rng.random() < 0.6 else None
                    res.append(ExprStmt(If(g.expr("bool", 1), Block(stmts(depth - 1, in_loop), None, "unit"), els, "unit")))
                elif r < 0.82 and depth > 0 and not in_loop:
                    counter[0] += 1
                    iv = f"i{counter[0]}"
                    body = stmts(depth - 1, True) + [Assign(Var(iv, t), Lit(t, 1), "+")]
                    res.append(Let(iv, t, Lit(t, 0)))
                    res.append(ExprStmt(While(Bin("<", Var(iv, t), Lit(t, rng.randint(1, 3)), "bool"), Block(body, None, "unit"))))
                elif r < 0.9 and depth > 0:
                    res.append(ExprStmt(If(g.expr("bool", 1), Block([ExprStmt(Ret(g.expr(t, 1)))], None, "unit"), None, "unit")))
                elif effects:
                    res.append(ExprStmt(Host(f"emit_{t}", [g.expr(t, 1)], "unit")))
                else:
                    res.append(Assign(v, g.expr(t, 2)))
            return res
        body = [Let("x", t, Var("a", t)), Let("y", t, Var("b", t))] + stmts(2, False)
        e = Bin(rng.choice(["+", "-", "*"]), Var("x", t), Var("y", t), t)
        fam = "F12E" if effects else "F12"
        out.append(P(f"{fam.lower()}_{seed}_{i}", fam, Program([fn_main([("a", t), ("b", t)], t, body, e)]), {"value"} | ({"trace"} if effects else set())))
    return out


# ------------------------------------------------------------------------------------------- F4 control flow
def f4_cells():
    out = []
    for t in ["i32", "u8", "i64", "u16"]:
        a, b, c = Var("a", t), Var("b", t), Var("c", t)
        i, s = Var("i", t), Var("s", t)
        one, zero = Lit(t, 1), Lit(t, 0)
        # sum loop with symbolic bound
        out.append(P(f"f4_{t}_sum_loop", "F4", Program([fn_main([("a", t), ("b", t)], t, [
            Let("i", t, zero), Let("s", t, b),
            ExprStmt(While(Bin("<", i, a, "bool"), Block([Assign(s, Bin("*", s, Lit(t, 3), t), "+"), Assign(i, one, "+")], None, "unit")))], s)]), {"value"}))
        # nested loops with constant bounds
        j = Var("j", t)
        out.append(P(f"f4_{t}_nested_loop", "F4", Program([fn_main([("a", t), ("b", t)], t, [
            Let("i", t, zero), Let("s", t, a),
            ExprStmt(While(Bin("<", i, Lit(t, 2), "bool"), Block([
                Let("j", t, zero),
                ExprStmt(While(Bin("<", j, Lit(t, 2), "bool"), Block([Assign(s, Bin("+", Bin("*", s, Lit(t, 2), t), b, t)), Assign(j, one, "+")], None, "unit"))),
                Assign(i, one, "+")], None, "unit")))], s)]), {"value"}))
        # early return inside loop and if
        out.append(P(f"f4_{t}_early_return", "F4", Program([fn_main([("a", t), ("b", t), ("c", t)], t, [
            Let("i", t, zero),
            ExprStmt(While(Bin("<", i, Lit(t, 3), "bool"), Block([
                ExprStmt(If(Bin("==", Bin("+", a, i, t), b, "bool"), Block([ExprStmt(Ret(Bin("+", i, Lit(t, 10), t)))], None, "unit"), None, "unit")),
                Assign(i, one, "+")], None, "unit"))),
            ExprStmt(If(Bin(">", c, b, "bool"), Block([ExprStmt(Ret(c))], None, "unit"), None, "unit"))], Bin("-", a, c, t))]), {"value"}))
        # else-if chain
        out.append(P(f"f4_{t}_else_if", "F4", Program([fn_main([("a", t), ("b", t), ("c", t)], t, [], If(
            Bin("<", a, b, "bool"), Block([], Lit(t, 1), t),
            Block([], If(Bin("<", b, c, "bool"), Block([], Lit(t, 2), t), Block([], If(Bin("==", a, c, "bool"), Block([], Lit(t, 3), t), Block([], Bin("+", a, c, t), t), t), t), t), t), t))]), {"value"}))
        # an if-expression whose then-branch contains a loop that may return but may also run zero times
        out.append(P(f"f4_{t}_if_value_with_returning_loop", "F4", Program([fn_main([("a", t), ("b", t), ("c", t)], t, [
            Let("i", t, zero),
            Let("v", t, If(Bin(">", a, zero, "bool"),
                           Block([ExprStmt(While(Bin("<", i, b, "bool"), Block([ExprStmt(Ret(Bin("+", Lit(t, 100), i, t)))], None, "unit")))], Lit(t, 5), t),
                           Block([], Lit(t, 6), t), t))], Bin("+", Var("v", t), c, t))]), {"value"}))
        # a long function: more than 64 basic blocks (36 sequential ifs)
        many = [Let("s", t, a)]
        for k in range(36):
            many.append(ExprStmt(If(Bin("==", Bin("+", b, Lit(t, k % 7), t), Lit(t, k % 5), "bool"), Block([Assign(s, Lit(t, 1), "+")], None, "unit"), None, "unit")))
        if t == "i32":
            out.append(P(f"f4_{t}_many_blocks", "F4", Program([fn_main([("a", t), ("b", t)], t, many, s)]), {"value"}))
        # helper functions, recursion (factorial-like with bounded depth) and mutual recursion
        n = Var("n", t)
        fact = FnDef("fact", [("n", t)], t, Block([], If(Bin("<=", n, one, "bool"), Block([], one, t), Block([], Bin("*", n, Call("fact", [Bin("-", n, one, t)], t), t), t), t), t))
        out.append(P(f"f4_{t}_recursion", "F4", Program([fact, fn_main([("a", t), ("b", t)], t, [], Bin("+", Call("fact", [a], t), b, t))]), {"value"}))
        ev = FnDef("is_even", [("n", t)], "bool", Block([], If(Bin("==", n, zero, "bool"), Block([], Lit("bool", True), "bool"), Block([], Call("is_odd", [Bin("-", n, one, t)], "bool"), "bool"), "bool"), "bool"))
        od = FnDef("is_odd", [("n", t)], "bool", Block([], If(Bin("==", n, zero, "bool"), Block([], Lit("bool", False), "bool"), Block([], Call("is_even", [Bin("-", n, one, t)], "bool"), "bool"), "bool"), "bool"))
        out.append(P(f"f4_{t}_mutual_recursion", "F4", Program([ev, od, fn_main([("a", t), ("b", t)], "bool", [], Bin("&&", Call("is_even", [a], "bool"), Call("is_odd", [b], "bool"), "bool"))]), {"value"}))
        # option: construct, match with guard, ?
        ot = ("opt", t)
        v = Var("v", t)
        mk_opt = FnDef("pick", [("x", t), ("y", t)], ot, Block([], If(Bin(">", Var("x", t), Var("y", t), "bool"), Block([], Ctor(ot, "Some", [Bin("-", Var("x", t), Var("y", t), t)]), ot), Block([], Ctor(ot, "None", []), ot), ot), ot))
        out.append(P(f"f4_{t}_option_match", "F4", Program([mk_opt, fn_main([("a", t), ("b", t), ("c", t)], t, [Let("o", ot, Call("pick", [a, b], ot))], Match(Var("o", ot), [
            ("Some", ["v"], Bin("==", v, c, "bool"), Lit(t, 7)),
            ("Some", ["v"], None, Bin("+", v, one, t)),
            ("None", [], None, c)], t))]), {"value"}))
        inner = FnDef("inner", [("x", t), ("y", t)], ot, Block([Let("d", t, Try(Call("pick", [Var("x", t), Var("y", t)], ot), t))], Ctor(ot, "Some", [Bin("*", Var("d", t), Lit(t, 2), t)]), ot))
        out.append(P(f"f4_{t}_question_mark", "F4", Program([mk_opt, inner, fn_main([("a", t), ("b", t), ("c", t)], t, [], Match(Call("inner", [a, b], ot), [
            ("None", [], None, c), ("Some", ["v"], None, v)], t))]), {"value"}))
    return out


# ------------------------------------------------------------------------------------------- F5 records / enums
def f5_cells(seed, n_random=12):
    rng = random.Random(seed)
    out = []
    field_types = ["u8", "u16", "u32", "u64", "i8", "i16", "i32", "i64", "bool", "f32", "f64"]

    def mk(idx, ftys, t):
        name = f"R{idx}"
        fields = [(f"f{i}", ft) for i, ft in enumerate(ftys)]
        a, b, c = Var("a", t), Var("b", t), Var("c", t)
        srcs = {"a": a, "b": b, "c": c}

        def val_of(ft, which):
            if ft == t:
                return srcs[which]
            if ft == "bool":
                return Bin("<", srcs[which], srcs["c" if which != "c" else "a"], "bool")
            if ft in INT_T:
                return Lit(ft, rng.choice([1, 2, maxv(ft)]))
            return Lit(ft, rng.choice([0.5, 2.0]))
        rty = ("rec", name)
        p, q = Var("p", rty), Var("q", rty)
        init = RecLit(rty, [(fn_, val_of(ft, rng.choice("abc"))) for fn_, ft in fields])
        # mutate one field of the copy whose type is t (ensure there is one)
        tf = [fn_ for fn_, ft in fields if ft == t]
        stmts = [Let("p", rty, init), Let("q", rty, p)]
        mf = rng.choice(tf)
        stmts.append(Assign(Field(q, mf, t), Bin("+", Field(q, mf, t), Lit(t, 1), t)))
        other = rng.choice(tf)
        # result: p unchanged, q changed, equality results
        res = If(Bin("==", p, q, "bool"), Block([], Lit(t, 0), t),
                 Block([], Bin("+", Bin("*", Field(p, mf, t), Lit(t, 3), t), Bin("+", Field(q, mf, t), Field(q, other, t), t), t), t), t)
        prog = Program([fn_main([("a", t), ("b", t), ("c", t)], t, stmts, res)], records={name: fields})
        return P(f"f5_rec_{idx}", "F5", prog, {"value"})

    fixed = [(["u8", "i64", "u16"], "i64"), (["u64", "u8", "u8", "u32"], "u8"), (["bool", "i32", "bool", "i16"], "i32"),
             (["f64", "u8", "u16"], "u16"), (["u8"], "u8"), (["i16", "i8", "i64", "i8", "u32", "u16"], "i8")]
    for i, (ftys, t) in enumerate(fixed):
        out.append(mk(i, ftys, t))
    for i in range(n_random):
        t = rng.choice(["u8", "u16", "i32", "i64", "u64", "i8"])
        k = rng.randint(1, 6)
        ftys = [rng.choice(field_types) for _ in range(k)]
        ftys[rng.randrange(k)] = t
        out.append(mk(100 + i, ftys, t))
    # nested record + nested field write
    for t in ["u8", "i32", "u64"]:
        inner = [("x", t), ("y", "u8"), ("z", t)]
        outer = [("h", "u8"), ("inner", ("rec", "In")), ("t", t)]
        a, b, c = Var("a", t), Var("b", t), Var("c", t)
        oty, ity = ("rec", "Out"), ("rec", "In")
        o, o2 = Var("o", oty), Var("o2", oty)
        stmts = [Let("o", oty, RecLit(oty, [("h", Lit("u8", 5)), ("inner", RecLit(ity, [("x", a), ("y", Lit("u8", 9)), ("z", b)])), ("t", c)])),
                 Let("o2", oty, o),
                 Assign(Field(Field(o2, "inner", ity), "z", t), Bin("+", Field(Field(o2, "inner", ity), "x", t), c, t))]
        res = Bin("+", Bin("*", Field(Field(o, "inner", ity), "z", t), Lit(t, 2), t), Field(Field(o2, "inner", ity), "z", t), t)
        out.append(P(f"f5_nested_{t}", "F5", Program([fn_main([("a", t), ("b", t), ("c", t)], t, stmts, res)], records={"In": inner, "Out": outer}), {"value"}))
    # structural equality of enum values holding the same / different variants (generated eq functions), also nested in a record
    for idx, (t, variants_) in enumerate([("u8", [("A", ["u8"]), ("B", ["u8"])]), ("u8", [("A", ["u8"]), ("B", ["u8", "u8"]), ("C", [])]),
                                          ("i64", [("A", ["u8", "i64"]), ("B", ["i64", "u16"]), ("C", ["u16"])])]):
        ename = f"Q{idx}"
        ety = ("enum", ename)
        a, b, c = Var("a", t), Var("b", t), Var("c", t)
        for vi, (vn, fts) in enumerate(variants_):
            def args(second):
                out_ = []
                used = 0
                for ft in fts:
                    if ft == t:
                        out_.append([a, b][used % 2] if not second else [a, c][used % 2])
                        used += 1
                    else:
                        out_.append(Lit(ft, 5))
                return out_
            x, y = Ctor(ety, vn, args(False)), Ctor(ety, vn, args(True))
            res = If(Bin("==", Var("x", ety), Var("y", ety), "bool"), Block([], Lit(t, 1), t), Block([], If(Bin("!=", Var("x", ety), Var("y", ety), "bool"), Block([], Lit(t, 2), t), Block([], Lit(t, 3), t), t), t), t)
            out.append(P(f"f5_enum_eq_{idx}_{vn}", "F5", Program([fn_main([("a", t), ("b", t), ("c", t)], t, [Let("x", ety, x), Let("y", ety, y)], res)], enums={ename: variants_}), {"value"}))
            # wrapped in a record with a trailing field
            rty = ("rec", f"W{idx}")
            rx = RecLit(rty, [("e", x), ("k", Lit("u8", 9))])
            ry = RecLit(rty, [("e", y), ("k", Lit("u8", 9))])
            res2 = If(Bin("==", Var("x", rty), Var("y", rty), "bool"), Block([], Lit(t, 1), t), Block([], Lit(t, 0), t), t)
            out.append(P(f"f5_enum_in_record_eq_{idx}_{vn}", "F5", Program([fn_main([("a", t), ("b", t), ("c", t)], t, [Let("x", rty, rx), Let("y", rty, ry)], res2)],
                                                                       enums={ename: variants_}, records={f"W{idx}": [("e", ety), ("k", "u8")]}), {"value"}))
        # different variants are never equal
        x, y = Ctor(ety, variants_[0][0], [a if ft == t else Lit(ft, 5) for ft in variants_[0][1]]), Ctor(ety, variants_[1][0], [a if ft == t else Lit(ft, 5) for ft in variants_[1][1]])
        out.append(P(f"f5_enum_eq_{idx}_mixed", "F5", Program([fn_main([("a", t), ("b", t), ("c", t)], t, [Let("x", ety, x), Let("y", ety, y)],
                     If(Bin("==", Var("x", ety), Var("y", ety), "bool"), Block([], Lit(t, 1), t), Block([], Lit(t, 0), t), t))], enums={ename: variants_}), {"value"}))
    # user enums with payloads of mixed widths, selected by input, matched with guards
    for idx, (t, variants_) in enumerate([("u8", [("A", ["u8", "i64"]), ("B", ["u16"]), ("C", [])]),
                                          ("i32", [("A", ["i32"]), ("B", ["u8", "i32", "u8"]), ("C", []), ("D", ["u64"])]),
                                          ("u64", [("A", ["u8"]), ("B", ["u64", "u64"])])]):
        ety = ("enum", f"E{idx}")
        a, b, c = Var("a", t), Var("b", t), Var("c", t)

        def payload(ft, k):
            return [a, b, c][k % 3] if ft == t else (Lit(ft, 3) if ft in INT_T else Lit(ft, 1.0))
        ctor = lambda vi: Ctor(ety, variants_[vi][0], [payload(ft, k) for k, ft in enumerate(variants_[vi][1])])
        e = Var("e", ety)
        sel = If(Bin("<", a, b, "bool"), Block([], ctor(0), ety), Block([], If(Bin("<", b, c, "bool"), Block([], ctor(1), ety), Block([], ctor(len(variants_) - 1), ety), ety), ety), ety)
        arms = []
        for vi, (vn, fts) in enumerate(variants_):
            binds = [f"p{k}" for k in range(len(fts))]
            tb = [Var(bn, ft) for bn, ft in zip(binds, fts) if ft == t]
            if tb:
                arms.append((vn, binds, Bin("==", tb[0], c, "bool"), Lit(t, 40 + vi)))
                arms.append((vn, binds, None, Bin("+", tb[-1], Lit(t, vi), t)))
            else:
                arms.append((vn, binds, None, Lit(t, 90 + vi)))
        out.append(P(f"f5_enum_{idx}", "F5", Program([fn_main([("a", t), ("b", t), ("c", t)], t, [Let("e", ety, sel), Let("e2", ety, e)],
                                                                Match(Var("e2", ety), arms, t))], enums={f"E{idx}": variants_}), {"value"}))
    # variants with 3-4 payload fields whose alignments go down and up again: constructor writes and match bindings of
    # every payload position (sixth seeding round: an offset computed from a padded prefix only differs from the third field on)
    patterns = [["u32", "u8", "u8", "u32"], ["u64", "u8", "u16", "u8"], ["u16", "u8", "u8", "u16"], ["u64", "u32", "u8", "u8"],
                ["u8", "u64", "u8", "u32"], ["u32", "u16", "u8", "u64"], ["u16", "u8", "u32"], ["u64", "u8", "u8"]]
    for pi, fts in enumerate(patterns):
        for t in sorted(set(fts)):
            ety = ("enum", f"Wd{pi}")
            variants_ = [("N", []), ("V", fts)]
            a, b, c = Var("a", t), Var("b", t), Var("c", t)
            litv = lambda k: Lit(fts[k], 3 + k)
            k_t = [k for k, ft in enumerate(fts) if ft == t]
            pay = [[a, b, c][k_t.index(k) % 3] if ft == t else litv(k) for k, ft in enumerate(fts)]
            sel = If(Bin("<", a, Lit(t, 200), "bool"), Block([], Ctor(ety, "V", pay), ety), Block([], Ctor(ety, "N", []), ety), ety)
            binds = [f"p{k}" for k in range(len(fts))]
            terms = []
            for k, ft in enumerate(fts):
                if ft == t:
                    terms.append(Bin("*", Var(binds[k], t), Lit(t, k + 1), t))
                else:
                    terms.append(If(Bin("==", Var(binds[k], ft), litv(k), "bool"), Block([], Lit(t, 0), t), Block([], Lit(t, 10 + k), t), t))
            expr = terms[0]
            for x in terms[1:]:
                expr = Bin("+", expr, x, t)
            out.append(P(f"f5_wide_variant_{pi}_{t}", "F5", Program([fn_main([("a", t), ("b", t), ("c", t)], t, [Let("e", ety, sel), Let("e2", ety, Var("e", ety))],
                         Match(Var("e2", ety), [("V", binds, None, expr), ("N", [], None, Lit(t, 77))], t))], enums={f"Wd{pi}": variants_}), {"value"}))
    # a script function that assigns to its record / option parameter: the caller's variable must not change (arguments are
    # copies), also when the same variable is passed twice (sixth seeding round: plain-data locals passed without a copy)
    for t in ["i32", "u8", "u64"]:
        rty = ("rec", "Pt")
        fields = [("x", t), ("k", "u8"), ("y", t)]
        a, b, c = Var("a", t), Var("b", t), Var("c", t)
        pp, qq = Var("p", rty), Var("q", rty)
        bump = FnDef("bump", [("p", rty), ("d", t)], t, Block([Assign(Field(pp, "x", t), Bin("+", Field(pp, "x", t), Var("d", t), t)),
                                                               Assign(Field(pp, "y", t), Var("d", t))], Bin("+", Field(pp, "x", t), Field(pp, "y", t), t), t))
        r = Var("r", rty)
        stmts = [Let("r", rty, RecLit(rty, [("x", a), ("k", Lit("u8", 4)), ("y", b)])), Let("s", t, Call("bump", [r, c], t))]
        res = Bin("+", Bin("*", Field(r, "x", t), Lit(t, 3), t), Bin("+", Field(r, "y", t), Var("s", t), t), t)
        out.append(P(f"f5_callee_assigns_record_param_{t}", "F5", Program([bump, fn_main([("a", t), ("b", t), ("c", t)], t, stmts, res)], records={"Pt": fields}), {"value"}))
        both = FnDef("both", [("p", rty), ("q", rty)], t, Block([Assign(Field(pp, "x", t), Bin("+", Field(pp, "x", t), Lit(t, 1), t))],
                                                               Bin("+", Bin("*", Field(pp, "x", t), Lit(t, 2), t), Field(qq, "x", t), t), t))
        stmts2 = [Let("r", rty, RecLit(rty, [("x", a), ("k", Lit("u8", 4)), ("y", b)])), Let("s", t, Call("both", [r, r], t))]
        res2 = Bin("+", Field(r, "x", t), Var("s", t), t)
        out.append(P(f"f5_same_record_passed_twice_{t}", "F5", Program([both, fn_main([("a", t), ("b", t), ("c", t)], t, stmts2, res2)], records={"Pt": fields}), {"value"}))
        ot = ("opt", t)
        oo = Var("o", ot)
        clear = FnDef("clear", [("o", ot)], t, Block([Assign(oo, Ctor(ot, "None", []))], Lit(t, 1), t))
        v = Var("v", ot)
        stmts3 = [Let("v", ot, Ctor(ot, "Some", [a])), Let("s", t, Call("clear", [v], t))]
        res3 = Match(v, [("Some", ["w"], None, Bin("+", Var("w", t), Var("s", t), t)), ("None", [], None, Lit(t, 50))], t)
        out.append(P(f"f5_callee_assigns_option_param_{t}", "F5", Program([clear, fn_main([("a", t), ("b", t), ("c", t)], t, stmts3, res3)]), {"value"}))
    # matches that name only some variants - not a prefix of the declaration order - and send the rest to `_`
    t = "i32"
    variants_ = [("A", [t]), ("B", ["u8", t]), ("C", []), ("D", [t])]
    ety = ("enum", "S4")
    a, b, c = Var("a", t), Var("b", t), Var("c", t)
    mkv = {"A": Ctor(ety, "A", [a]), "B": Ctor(ety, "B", [Lit("u8", 7), b]), "C": Ctor(ety, "C", []), "D": Ctor(ety, "D", [c])}
    sel4 = If(Bin("<", a, b, "bool"), Block([], If(Bin("<", b, c, "bool"), Block([], mkv["A"], ety), Block([], mkv["B"], ety), ety), ety),
              Block([], If(Bin("<", a, c, "bool"), Block([], mkv["C"], ety), Block([], mkv["D"], ety), ety), ety), ety)
    binds = {"A": ["p"], "B": ["k", "p"], "C": [], "D": ["p"]}
    body = {"A": Bin("+", Var("p", t), Lit(t, 100), t), "B": Bin("+", Var("p", t), Lit(t, 200), t), "C": Lit(t, 300), "D": Bin("+", Var("p", t), Lit(t, 400), t)}
    for named in (["B"], ["C"], ["D"], ["B", "D"], ["D", "B"], ["C", "A"], ["A", "C", "D"], ["D", "C", "B"]):
        arms = [(vn, binds[vn], None, body[vn]) for vn in named] + [("_", [], None, Lit(t, -1))]
        out.append(P(f"f5_match_subset_{'_'.join(named)}", "F5", Program([fn_main([("a", t), ("b", t), ("c", t)], t, [Let("e", ety, sel4)], Match(Var("e", ety), arms, t))],
                                                                       enums={"S4": variants_}), {"value"}))
    ot = ("opt", t)
    o = If(Bin("<", a, b, "bool"), Block([], Ctor(ot, "Some", [c]), ot), Block([], Ctor(ot, "None", []), ot), ot)
    out.append(P("f5_match_subset_option_none_first", "F5", Program([fn_main([("a", t), ("b", t), ("c", t)], t, [Let("o", ot, o)],
                 Match(Var("o", ot), [("None", [], None, a), ("_", [], None, b)], t))]), {"value"}))
    out.append(P("f5_match_subset_option_some_first", "F5", Program([fn_main([("a", t), ("b", t), ("c", t)], t, [Let("o", ot, o)],
                 Match(Var("o", ot), [("Some", ["v"], None, Var("v", t)), ("_", [], None, b)], t))]), {"value"}))
    return out


# ------------------------------------------------------------------------------------------- filtermaps: accept / reject
def filtermap_cells():
    """accept / reject leave the filtermap at once with Verdict.Accept(payload) / Verdict.Reject(payload): nothing after them
    runs (C08), the payload arrives in Rust's Verdict (C01, C05), every live host value is released on that path (C03)"""
    out = []
    i32 = "i32"
    a, b = Var("a", i32), Var("b", i32)
    zero, one = Lit(i32, 0), Lit(i32, 1)
    em = lambda e: Host("emit_i32", [e], "unit")
    pu = lambda e: Host("pure_i32", [e], i32)
    vu, vv = ("verdict", i32, "unit"), ("verdict", i32, i32)
    iv = Var("i", i32)

    def fm(name, fam, params, vty, stmts, modes):
        f = FnDef("main", params, vty, Block(stmts, None, "unit"))
        f.filtermap = True
        out.append(P(name, fam, Program([f]), modes))
    when = lambda c, stmts: ExprStmt(If(c, Block(stmts, None, "unit"), None, "unit"))
    fm("f7_filtermap_accept_reject_unit", "F7", [("a", i32)], vu,
       [ExprStmt(em(a)), when(Bin(">", a, zero, "bool"), [ExprStmt(em(one)), ExprStmt(Accept(a, vu)), ExprStmt(em(Lit(i32, 99)))]), ExprStmt(em(Lit(i32, 2))), ExprStmt(Reject(None, vu))],
       {"trace", "value"})
    fm("f7_filtermap_accept_in_loop", "F7", [("a", i32)], vu,
       [Let("i", i32, zero), ExprStmt(While(Bin("<", iv, Lit(i32, 3), "bool"), Block([when(Bin("==", iv, a, "bool"), [ExprStmt(Accept(Bin("*", iv, Lit(i32, 10), i32), vu))]),
                                                                                  ExprStmt(em(iv)), Assign(iv, one, "+")], None, "unit"))), ExprStmt(em(Lit(i32, 7))), ExprStmt(Reject(None, vu))],
       {"trace", "value"})
    fm("f7_filtermap_both_payloads", "F7", [("a", i32), ("b", i32)], vv,
       [when(Bin("<", a, b, "bool"), [ExprStmt(Reject(pu(a), vv)), ExprStmt(em(a))]), ExprStmt(em(b)), ExprStmt(Accept(pu(Bin("+", a, b, i32)), vv))],
       {"trace", "value"})
    ot = ("opt", i32)
    fm("f7_filtermap_accept_in_match", "F7", [("a", i32), ("b", i32)], vv,
       [Let("o", ot, If(Bin("<", a, b, "bool"), Block([], Ctor(ot, "Some", [a]), ot), Block([], Ctor(ot, "None", []), ot), ot)),
        ExprStmt(Match(Var("o", ot), [("Some", ["v"], Bin(">", Var("v", i32), zero, "bool"), Block([ExprStmt(em(Var("v", i32))), ExprStmt(Accept(Var("v", i32), vv))], None, "unit")),
                                      ("Some", ["v"], None, Block([ExprStmt(em(zero))], None, "unit")),
                                      ("None", [], None, Block([ExprStmt(em(b))], None, "unit"))], "unit")),
        ExprStmt(Reject(b, vv))],
       {"trace", "value"})
    T = "Tracked"
    mk = lambda e: Host("mk", [e], T)
    peek = lambda e: Host("peek", [e], i32)
    fm("f6_filtermap_accept_with_live_values", "F6", [("a", i32)], vu,
       [Let("t", T, mk(a)), when(Bin(">", a, zero, "bool"), [Let("u", T, mk(one)), ExprStmt(Accept(Bin("+", peek(Var("u", T)), peek(Var("t", T)), i32), vu))]), ExprStmt(Reject(None, vu))],
       {"ledger", "trace", "value"})
    fm("f6_filtermap_accept_in_loop", "F6", [("a", i32)], vu,
       [Let("t", T, mk(a)), Let("i", i32, zero),
        ExprStmt(While(Bin("<", iv, Lit(i32, 3), "bool"), Block([Let("u", T, mk(iv)), when(Bin("==", iv, a, "bool"), [ExprStmt(Accept(peek(Var("u", T)), vu))]), Assign(iv, one, "+")], None, "unit"))),
        ExprStmt(Reject(None, vu))],
       {"ledger", "trace", "value"})
    fm("f6_filtermap_reject_payload_from_tracked", "F6", [("a", i32), ("b", i32)], vv,
       [Let("t", T, mk(a)), when(Bin("<", a, b, "bool"), [ExprStmt(Reject(peek(Var("t", T)), vv))]), Let("u", T, Var("t", T)), ExprStmt(Accept(Bin("+", peek(Var("u", T)), b, i32), vv))],
       {"ledger", "trace", "value"})
    return out


# ------------------------------------------------------------------------------------------- F6 droppable values
def f6_cells():
    out = []
    T = "Tracked"
    a, b = Var("a", "i32"), Var("b", "i32")
    t, u = Var("t", T), Var("u", T)
    mk = lambda e: Host("mk", [e], T)
    peek = lambda e: Host("peek", [e], "i32")
    eat = lambda e: Host("eat", [e], "unit")
    zero, one = Lit("i32", 0), Lit("i32", 1)
    cases = {
        "unused": ([Let("t", T, mk(a))], b),
        "used_once": ([Let("t", T, mk(a))], peek(t)),
        "used_twice": ([Let("t", T, mk(a))], Bin("+", peek(t), peek(t), "i32")),
        "if_without_else": ([Let("t", T, mk(a)), ExprStmt(If(Bin(">", a, b, "bool"), Block([ExprStmt(eat(t))], None, "unit"), None, "unit"))], b),
        "early_return": ([Let("t", T, mk(a)), ExprStmt(If(Bin(">", a, b, "bool"), Block([ExprStmt(Ret(peek(t)))], None, "unit"), None, "unit")), Let("u", T, mk(b))], Bin("+", peek(u), peek(t), "i32")),
        "shortcircuit_and": ([], If(Bin("&&", Bin(">", peek(mk(a)), zero, "bool"), Bin(">", peek(mk(b)), zero, "bool"), "bool"), Block([], one, "i32"), Block([], zero, "i32"), "i32")),
        "shortcircuit_or_eq": ([], If(Bin("||", Bin("==", mk(a), mk(b), "bool"), Bin("==", mk(b), mk(a), "bool"), "bool"), Block([], one, "i32"), Block([], zero, "i32"), "i32")),
        "overwrite": ([Let("t", T, mk(a)), Assign(t, mk(b))], peek(t)),
        "overwrite_in_branch": ([Let("t", T, mk(a)), ExprStmt(If(Bin("<", a, b, "bool"), Block([Assign(t, mk(b))], None, "unit"), None, "unit"))], peek(t)),
        "copy_then_drop": ([Let("t", T, mk(a)), Let("u", T, t)], Bin("+", peek(u), peek(t), "i32")),
        "while_body": ([Let("i", "i32", zero), ExprStmt(While(Bin("<", Var("i", "i32"), a, "bool"), Block([Let("t", T, mk(Var("i", "i32"))), ExprStmt(eat(t)), Assign(Var("i", "i32"), one, "+")], None, "unit")))], Var("i", "i32")),
        "while_body_unused": ([Let("i", "i32", zero), ExprStmt(While(Bin("<", Var("i", "i32"), a, "bool"), Block([Let("t", T, mk(Var("i", "i32"))), Assign(Var("i", "i32"), one, "+")], None, "unit")))], Var("i", "i32")),
        "while_cond": ([Let("i", "i32", zero), ExprStmt(While(Bin("!=", mk(Var("i", "i32")), mk(a), "bool"), Block([Assign(Var("i", "i32"), one, "+")], None, "unit")))], Var("i", "i32")),
        "while_cond_peek": ([Let("i", "i32", zero), ExprStmt(While(Bin("<", peek(mk(Var("i", "i32"))), a, "bool"), Block([Assign(Var("i", "i32"), one, "+")], None, "unit")))], Var("i", "i32")),
        "while_break_by_return": ([Let("i", "i32", zero), Let("t", T, mk(b)), ExprStmt(While(Bin("<", Var("i", "i32"), Lit("i32", 3), "bool"), Block([
            Let("u", T, mk(Var("i", "i32"))),
            ExprStmt(If(Bin("==", Var("i", "i32"), a, "bool"), Block([ExprStmt(Ret(peek(u)))], None, "unit"), None, "unit")),
            Assign(Var("i", "i32"), one, "+")], None, "unit")))], peek(t)),
        "block_value": ([Let("x", "i32", Block([Let("t", T, mk(a))], Bin("+", peek(t), one, "i32"), "i32"))], Var("x", "i32")),
        "nested_blocks": ([Let("t", T, mk(a)), Let("x", "i32", Block([Let("u", T, t), ExprStmt(If(Bin(">", b, zero, "bool"), Block([ExprStmt(eat(u))], None, "unit"), None, "unit"))], peek(t), "i32"))], Var("x", "i32")),
        "arg_of_user_fn": ([], Call("use_it", [mk(a), b], "i32")),
        "arg_of_user_fn_unused": ([], Call("ignore_it", [mk(a), b], "i32")),
        "return_from_user_fn": ([Let("t", T, Call("make", [a, b], T))], peek(t)),
        # an earlier argument / field is already materialised when a later one leaves the function (seventh seeding round: the agent
        # read these shapes as leaking on the unchanged tree)
        "later_arg_returns_user_fn": ([], Call("use_it2", [mk(a), Block([ExprStmt(If(Bin(">", a, b, "bool"), Block([ExprStmt(Ret(zero))], None, "unit"), None, "unit"))], b, "i32")], "i32")),
    }
    helpers = {
        "later_arg_returns_user_fn": [FnDef("use_it2", [("t", T), ("n", "i32")], "i32", Block([], Bin("+", peek(t), Var("n", "i32"), "i32"), "i32"))],
        "arg_of_user_fn": [FnDef("use_it", [("t", T), ("n", "i32")], "i32", Block([], If(Bin(">", Var("n", "i32"), zero, "bool"), Block([], peek(t), "i32"), Block([], Var("n", "i32"), "i32"), "i32"), "i32"))],
        "arg_of_user_fn_unused": [FnDef("ignore_it", [("t", T), ("n", "i32")], "i32", Block([], Var("n", "i32"), "i32"))],
        "return_from_user_fn": [FnDef("make", [("x", "i32"), ("y", "i32")], T, Block([Let("t", T, mk(Var("x", "i32"))), ExprStmt(If(Bin(">", Var("y", "i32"), zero, "bool"), Block([ExprStmt(Ret(mk(Var("y", "i32"))))], None, "unit"), None, "unit"))], t, T))],
    }
    for name, (stmts, e) in cases.items():
        out.append(P(f"f6_{name}", "F6", Program(helpers.get(name, []) + [fn_main([("a", "i32"), ("b", "i32")], "i32", stmts, e)]), {"ledger", "value", "trace"}))
    # tracked inside record / option / enum, match bindings and guards
    rty = ("rec", "Holder")
    h, h2 = Var("h", rty), Var("h2", rty)
    # `?` whose operand is a field of a temporary record that owns a host value: on the None path the temporary must still be
    # released (seventh seeding round: the frames to drop were snapshotted before the operand was lowered)
    wty = ("rec", "Wrapped")
    oi = ("opt", "i32")
    wrap = FnDef("wrap", [("t", T), ("n", "i32")], wty, Block([], RecLit(wty, [("t", Var("t", T)), ("o", If(Bin(">", Var("n", "i32"), zero, "bool"), Block([], Ctor(oi, "Some", [Var("n", "i32")]), oi), Block([], Ctor(oi, "None", []), oi), oi))]), wty))
    inner = FnDef("inner", [("x", "i32"), ("y", "i32")], oi, Block([Let("v", "i32", Try(Field(Call("wrap", [mk(Var("x", "i32")), Var("y", "i32")], wty), "o", oi), "i32"))], Ctor(oi, "Some", [Bin("+", Var("v", "i32"), one, "i32")]), oi))
    out.append(P("f6_try_on_field_of_temporary_record", "F6", Program([wrap, inner, fn_main([("a", "i32"), ("b", "i32")], "i32", [],
                 Match(Call("inner", [a, b], oi), [("Some", ["v"], None, Var("v", "i32")), ("None", [], None, Lit("i32", -1))], "i32"))], records={"Wrapped": [("t", T), ("o", oi)]}), {"ledger", "value", "trace"}))
    # a match guard that itself leaves the function: the bindings of that arm are live at that point
    ot_ = ("opt", T)
    out.append(P("f6_match_guard_returns", "F6", Program([fn_main([("a", "i32"), ("b", "i32")], "i32", [
        Let("o", ot_, If(Bin(">", a, zero, "bool"), Block([], Ctor(ot_, "Some", [mk(a)]), ot_), Block([], Ctor(ot_, "None", []), ot_), ot_))],
        Match(Var("o", ot_), [("Some", ["t"], Block([ExprStmt(If(Bin(">", a, b, "bool"), Block([ExprStmt(Ret(zero))], None, "unit"), None, "unit"))], Lit("bool", True), "bool"), peek(t)),
                              ("Some", ["t"], None, one), ("None", [], None, Lit("i32", 2))], "i32"))]), {"ledger", "value", "trace"}))
    out.append(P("f6_record_later_field_returns", "F6", Program([fn_main([("a", "i32"), ("b", "i32")], "i32", [
        Let("h", rty, RecLit(rty, [("t", mk(b)), ("n", Block([ExprStmt(If(Bin(">", a, b, "bool"), Block([ExprStmt(Ret(zero))], None, "unit"), None, "unit"))], a, "i32"))]))],
        Bin("+", Field(h, "n", "i32"), peek(Field(h, "t", T)), "i32"))], records={"Holder": [("n", "i32"), ("t", T)]}), {"ledger", "value", "trace"}))
    out.append(P("f6_record_field", "F6", Program([fn_main([("a", "i32"), ("b", "i32")], "i32", [
        Let("h", rty, RecLit(rty, [("n", a), ("t", mk(b))])), Let("h2", rty, h),
        ExprStmt(If(Bin(">", a, b, "bool"), Block([ExprStmt(eat(Field(h2, "t", T)))], None, "unit"), None, "unit"))],
        Bin("+", Field(h, "n", "i32"), peek(Field(h, "t", T)), "i32"))], records={"Holder": [("n", "i32"), ("t", T)]}), {"ledger", "value", "trace"}))
    oty = ("opt", T)
    o = Var("o", oty)
    out.append(P("f6_option_match", "F6", Program([fn_main([("a", "i32"), ("b", "i32")], "i32", [
        Let("o", oty, If(Bin(">", a, b, "bool"), Block([], Ctor(oty, "Some", [mk(a)]), oty), Block([], Ctor(oty, "None", []), oty), oty))],
        Match(o, [("Some", ["x"], Bin(">", peek(Var("x", T)), Lit("i32", 5), "bool"), one),
                  ("Some", ["x"], None, peek(Var("x", T))),
                  ("None", [], None, b)], "i32"))]), {"ledger", "value", "trace"}))
    out.append(P("f6_match_arm_early_return", "F6", Program([fn_main([("a", "i32"), ("b", "i32")], "i32", [
        Let("o", oty, If(Bin(">", a, zero, "bool"), Block([], Ctor(oty, "Some", [mk(a)]), oty), Block([], Ctor(oty, "None", []), oty), oty))],
        Match(o, [("Some", ["x"], None, Block([ExprStmt(If(Bin(">", b, zero, "bool"), Block([ExprStmt(Ret(Bin("+", peek(Var("x", T)), Lit("i32", 100), "i32")))], None, "unit"), None, "unit"))], peek(Var("x", T)), "i32")),
                  ("None", [], None, b)], "i32"))]), {"ledger", "value", "trace"}))
    inner_fn = FnDef("inner", [("x", "i32"), ("y", "i32")], ("opt", "i32"), Block([
        Let("t", T, mk(Var("x", "i32"))),
        Let("v", "i32", Try(If(Bin(">", Var("y", "i32"), zero, "bool"), Block([], Ctor(("opt", "i32"), "Some", [Var("y", "i32")]), ("opt", "i32")), Block([], Ctor(("opt", "i32"), "None", []), ("opt", "i32")), ("opt", "i32")), "i32"))],
        Ctor(("opt", "i32"), "Some", [Bin("+", peek(t), Var("v", "i32"), "i32")]), ("opt", "i32")))
    out.append(P("f6_question_mark_with_live_value", "F6", Program([inner_fn, fn_main([("a", "i32"), ("b", "i32")], "i32", [],
        Match(Call("inner", [a, b], ("opt", "i32")), [("Some", ["r"], None, Var("r", "i32")), ("None", [], None, zero)], "i32"))]), {"ledger", "value", "trace"}))
    ety = ("enum", "Two")
    out.append(P("f6_enum_two_payloads", "F6", Program([fn_main([("a", "i32"), ("b", "i32")], "i32", [
        Let("e", ety, If(Bin(">", a, b, "bool"), Block([], Ctor(ety, "Both", [mk(a), mk(b)]), ety), Block([], Ctor(ety, "One", [mk(a)]), ety), ety)),
        Let("e2", ety, Var("e", ety))],
        Match(Var("e2", ety), [("Both", ["x", "y"], Bin("==", Var("x", T), Var("y", T), "bool"), zero),
                               ("Both", ["x", "y"], None, peek(Var("y", T))),
                               ("One", ["x"], None, peek(Var("x", T)))], "i32"))], enums={"Two": [("Both", [T, T]), ("One", [T])]}), {"ledger", "value", "trace"}))
    return out


def f6_random(seed, n):
    """random statement programs over drop-tracked values: creation, copies, overwrites, host calls that take ownership,
    comparisons, branches, bounded loops (also with tracked temporaries in the condition), early returns"""
    rng = random.Random(seed * 104729 + 17)
    out = []
    T = "Tracked"
    i32 = "i32"
    for i in range(n):
        a, b = Var("a", i32), Var("b", i32)
        tv_ = ["t"]
        counter = [0]
        mk = lambda e: Host("mk", [e], T)
        peek = lambda e: Host("peek", [e], i32)

        def ival(d=1):
            r = rng.random()
            if r < 0.3:
                return rng.choice([a, b, Var("x", i32)])
            if r < 0.45:
                return Lit(i32, rng.choice([0, 1, 2, 5]))
            if r < 0.7:
                return peek(tval())
            if d > 0:
                return Bin(rng.choice(["+", "-"]), ival(d - 1), ival(d - 1), i32)
            return a

        def tval():
            r = rng.random()
            if r < 0.6:
                return Var(rng.choice(tv_), T)
            return mk(ival(0))

        def cond():
            r = rng.random()
            if r < 0.4:
                return Bin(rng.choice(["<", ">", "==", "!="]), ival(0), ival(0), "bool")
            if r < 0.7:
                return Bin(rng.choice(["==", "!="]), tval(), tval(), "bool")
            return Bin(rng.choice(["&&", "||"]), Bin("<", ival(0), ival(0), "bool"), Bin("==", tval(), tval(), "bool"), "bool")

        def stmts(depth, in_loop):
            res = []
            for _ in range(rng.randint(1, 3)):
                r = rng.random()
                if r < 0.15:
                    counter[0] += 1
                    nm = f"u{counter[0]}"
                    res.append(Let(nm, T, tval()))
                    tv_.append(nm)
                elif r < 0.3:
                    res.append(Assign(Var(rng.choice(tv_), T), tval()))
                elif r < 0.42:
                    res.append(ExprStmt(Host("eat", [tval()], "unit")))
                elif r < 0.55:
                    res.append(Assign(Var("x", i32), ival(1), rng.choice([None, "+"])))
                elif r < 0.72 and depth > 0:
                    saved = list(tv_)
                    tb = Block(stmts(depth - 1, in_loop), None, "unit")
                    del tv_[len(saved):]
                    eb = None
                    if rng.random() < 0.5:
                        eb = Block(stmts(depth - 1, in_loop), None, "unit")
                        del tv_[len(saved):]
                    res.append(ExprStmt(If(cond(), tb, eb, "unit")))
                elif r < 0.84 and depth > 0 and not in_loop:
                    counter[0] += 1
                    iv = f"i{counter[0]}"
                    saved = list(tv_)
                    body = stmts(depth - 1, True) + [Assign(Var(iv, i32), Lit(i32, 1), "+")]
                    del tv_[len(saved):]
                    c = Bin("<", Var(iv, i32), Lit(i32, rng.randint(1, 2)), "bool")
                    if rng.random() < 0.4:
                        c = Bin("&&", c, Bin("!=", mk(Var(iv, i32)), tval(), "bool"), "bool")
                    res.append(Let(iv, i32, Lit(i32, 0)))
                    res.append(ExprStmt(While(c, Block(body, None, "unit"))))
                elif r < 0.93 and depth > 0:
                    res.append(ExprStmt(If(cond(), Block([ExprStmt(Ret(ival(1)))], None, "unit"), None, "unit")))
                else:
                    res.append(Assign(Var("x", i32), peek(tval()), "+"))
            return res
        body = [Let("x", i32, a), Let("t", T, mk(b))] + stmts(2, False)
        out.append(P(f"f6r_{seed}_{i}", "F6R", Program([fn_main([("a", i32), ("b", i32)], i32, body, Bin("+", Var("x", i32), peek(Var("t", T)), i32))]), {"ledger", "value", "trace"}))
    return out


# ------------------------------------------------------------------------------------------- F7 effect order
def f7_cells():
    out = []
    t = "i32"
    a, b, c = Var("a", t), Var("b", t), Var("c", t)
    pu = lambda e: Host(f"pure_{t}", [e], t)
    em = lambda e: Host(f"emit_{t}", [e], "unit")
    x = Var("x", t)
    f3 = FnDef("three", [("p", t), ("q", t), ("r", t)], t, Block([ExprStmt(em(Var("q", t)))], Bin("-", Var("p", t), Var("r", t), t), t))
    rty = ("rec", "Tri")
    cases = {
        "binop_operands": ([], Bin("-", pu(a), pu(b), t), []),
        "nested_binops": ([], Bin("+", Bin("*", pu(a), pu(b), t), Bin("-", pu(c), pu(a), t), t), []),
        "call_args": ([], Call("three", [pu(a), pu(b), pu(c)], t), [f3]),
        "record_fields": ([Let("r", rty, RecLit(rty, [("z", pu(c)), ("x", pu(a)), ("y", pu(b))]))], Bin("-", Field(Var("r", rty), "x", t), Field(Var("r", rty), "z", t), t), []),
        "and_short": ([], If(Bin("&&", Bin(">", pu(a), Lit(t, 0), "bool"), Bin(">", pu(b), Lit(t, 0), "bool"), "bool"), Block([ExprStmt(em(c))], a, t), Block([], b, t), t), []),
        "or_short": ([], If(Bin("||", Bin(">", pu(a), Lit(t, 0), "bool"), Bin(">", pu(b), Lit(t, 0), "bool"), "bool"), Block([ExprStmt(em(c))], a, t), Block([], b, t), t), []),
        "if_arms": ([], If(Bin("<", pu(a), pu(b), "bool"), Block([ExprStmt(em(Lit(t, 1)))], pu(c), t), Block([ExprStmt(em(Lit(t, 2)))], pu(a), t), t), []),
        "while_cond_count": ([Let("x", t, Lit(t, 0)), ExprStmt(While(Bin("<", pu(x), a, "bool"), Block([ExprStmt(em(x)), Assign(x, Lit(t, 1), "+")], None, "unit")))], x, []),
        "after_return": ([ExprStmt(em(a)), ExprStmt(If(Bin(">", a, b, "bool"), Block([ExprStmt(Ret(pu(c)))], None, "unit"), None, "unit")), ExprStmt(em(b))], pu(a), []),
        "compound_reads_target_first": ([Let("x", t, a), Assign(x, Block([Assign(x, pu(b))], c, t), "+")], x, []),
        "compound_reads_target_first_then_emit": ([Let("x", t, a), Assign(x, Block([Assign(x, pu(b))], c, t), "+"), ExprStmt(em(x))], b, []),
        "compound_field_reads_target_first_then_emit": ([Let("x", t, a), Assign(x, Block([Assign(x, pu(b))], pu(c), t), "*"), ExprStmt(em(x)), Assign(x, Block([Assign(x, Lit(t, 5))], a, t), "-"), ExprStmt(em(x))], x, []),
        "compound_rhs_effect": ([Let("x", t, pu(a)), Assign(x, pu(b), "-"), Assign(x, pu(c), "*")], x, []),
        "statement_order": ([ExprStmt(em(a)), Let("x", t, pu(b)), ExprStmt(em(x)), Assign(x, pu(c))], x, []),
        "block_in_operand": ([], Bin("+", Block([ExprStmt(em(a))], pu(b), t), Block([ExprStmt(em(c))], pu(a), t), t), []),
        "method_receiver_then_args": ([], HostM("msub", pu(a), [pu(b)], t), []),
        "method_chain": ([], HostM("msub", HostM("msub", pu(a), [pu(b)], t), [pu(c)], t), []),
        "method_receiver_var_then_arg_assigns": ([Let("x", t, a)], HostM("msub", x, [Block([Assign(x, pu(b))], c, t)], t), []),
        "method_arg_nested": ([], HostM("msub", pu(a), [HostM("msub", pu(b), [pu(c)], t)], t), []),
        "method_in_operand": ([], Bin("-", HostM("msub", pu(a), [b], t), HostM("msub", pu(c), [pu(a)], t), t), []),
        "emit7_positions": ([ExprStmt(Host("emit7", [Lit("u8", 1), Lit("i64", -2), Lit("u16", 3), pu(a), Lit("u64", 5), Lit("i8", -6), Lit("u32", 7)], "unit"))], b, []),
    }
    for op in ["+", "-", "*", "<", "<=", "==", "!="]:
        rt = "bool" if op in CMP else t
        body = lambda e: e if rt == t else If(e, Block([], Lit(t, 1), t), Block([], Lit(t, 0), t), t)
        cases[f"operands_nested_right_{opname(op)}"] = ([], body(Bin(op, pu(a), pu(pu(b)), rt)), [])
        cases[f"operands_nested_sum_{opname(op)}"] = ([], body(Bin(op, pu(a), Bin("+", pu(b), pu(c), t), rt)), [])
        cases[f"operands_right_returns_{opname(op)}"] = ([], body(Bin(op, pu(a), Block([ExprStmt(If(Bin(">", b, Lit(t, 0), "bool"), Block([ExprStmt(Ret(Lit(t, 7)))], None, "unit"), None, "unit"))], pu(c), t), rt)), [])
    for name, (stmts, e, helpers) in cases.items():
        recs = {"Tri": [("x", t), ("y", t), ("z", t)]} if name == "record_fields" else {}
        out.append(P(f"f7_{name}", "F7", Program(helpers + [fn_main([("a", t), ("b", t), ("c", t)], t, stmts, e)], records=recs), {"trace", "value"}))
    # enum constructor arguments (multi-field variant) and nested effects
    ety = ("enum", "Pair")
    out.append(P("f7_enum_ctor_args", "F7", Program([fn_main([("a", t), ("b", t), ("c", t)], t, [Let("e", ety, Ctor(ety, "A", [pu(a), pu(pu(b)), pu(c)]))],
        Match(Var("e", ety), [("A", ["p", "q", "r"], None, Bin("-", Bin("-", Var("p", t), Var("q", t), t), Var("r", t), t)), ("B", [], None, Lit(t, 0))], t))],
        enums={"Pair": [("A", [t, t, t]), ("B", [])]}), {"trace", "value"}))
    out.append(P("f7_option_ctor_arg", "F7", Program([fn_main([("a", t), ("b", t), ("c", t)], t, [Let("o", ("opt", t), Ctor(("opt", t), "Some", [Bin("+", pu(a), pu(pu(b)), t)]))],
        Match(Var("o", ("opt", t)), [("Some", ["p"], None, Var("p", t)), ("None", [], None, c)], t))]), {"trace", "value"}))
    # match guards in source order with effects
    ot = ("opt", t)
    pick = FnDef("pick", [("x", t), ("y", t)], ot, Block([], If(Bin(">", Var("x", t), Var("y", t), "bool"), Block([], Ctor(ot, "Some", [Var("x", t)]), ot), Block([], Ctor(ot, "None", []), ot), ot), ot))
    v = Var("v", t)
    out.append(P("f7_match_guards", "F7", Program([pick, fn_main([("a", t), ("b", t), ("c", t)], t, [], Match(Call("pick", [pu(a), pu(b)], ot), [
        ("Some", ["v"], Bin("==", pu(v), c, "bool"), Lit(t, 1)),
        ("Some", ["v"], Bin(">", pu(v), Lit(t, 100), "bool"), Lit(t, 2)),
        ("Some", ["v"], None, Block([ExprStmt(em(v))], v, t)),
        ("None", [], None, Block([ExprStmt(em(c))], c, t))], t))]), {"trace", "value"}))
    # guarded wildcard arm listed after the named arms and before the catch-all
    out.append(P("f7_match_trailing_wildcard_guard", "F7", Program([pick, fn_main([("a", t), ("b", t), ("c", t)], t, [], Match(Call("pick", [pu(a), pu(b)], ot), [
        ("Some", ["v"], Bin(">", pu(v), Lit(t, 10), "bool"), Lit(t, 1)),
        ("Some", ["v"], None, Lit(t, 3)),
        ("_", [], Bin("==", pu(c), Lit(t, 5), "bool"), Lit(t, 2)),
        ("_", [], None, Lit(t, 4))], t))]), {"trace", "value"}))
    # a guarded wildcard arm written above the arms naming the variant
    out.append(P("f7_match_leading_wildcard_guard", "F7", Program([pick, fn_main([("a", t), ("b", t), ("c", t)], t, [], Match(Call("pick", [pu(a), pu(b)], ot), [
        ("_", [], Bin(">", pu(c), Lit(t, 0), "bool"), Lit(t, 1)),
        ("Some", ["v"], Bin(">", pu(Bin("-", v, Lit(t, 5), t)), Lit(t, 0), "bool"), Lit(t, 2)),
        ("None", [], None, Lit(t, 3)),
        ("_", [], None, Lit(t, 4))], t))]), {"trace", "value"}))
    return out


# ------------------------------------------------------------------------------------------- F8 precedence
PREC = {"||": 0, "&&": 0, "==": 1, "!=": 1, "<": 1, "<=": 1, ">": 1, ">=": 1, "+": 2, "-": 2, "*": 3, "/": 3, "%": 3}


def parse_chain(operands, ops, types):
    """documented grouping: higher level binds tighter, equal levels associate to the left. `types` gives the
    result type constructor. Independent precedence-climbing over the *documented* table."""
    def climb(pos, min_level):
        lhs = operands[pos]
        while pos < len(ops) and PREC[ops[pos]] >= min_level:
            op = ops[pos]
            rhs, npos = climb(pos + 1, PREC[op] + 1)
            lhs = Bin(op, lhs, rhs, types(op, lhs))
            pos = npos
        return lhs, pos
    e, _ = climb(0, 0)
    return e


class Raw(Node):
    pass


def f8_cells(seed, n_random=30):
    """expression printed WITHOUT parentheses; the reference evaluates the tree built from the documented table"""
    rng = random.Random(seed)
    out = []
    t = "i32"
    names = ["a", "b", "c"]

    def build(ops, lits):
        operands = []
        for i in range(len(ops) + 1):
            operands.append(Var(names[i], t) if i < 3 else Lit(t, lits[i - 3]))
        def ty_of(op, lhs):
            return "bool" if op in CMP or op in ("&&", "||") else t
        tree = parse_chain(operands, ops, ty_of)
        flat = src(operands[0])
        for op, o in zip(ops, operands[1:]):
            flat += f" {op} {src(o)}"
        return tree, flat

    def typeable(ops):
        # arithmetic everywhere except at most one comparison; no logical operators on integers
        return sum(1 for o in ops if o in CMP) <= 1

    k = 0
    arith = ["+", "-", "*"]
    for o1 in arith + ["<", "=="]:
        for o2 in arith + ["<", "=="]:
            if not typeable([o1, o2]):
                continue
            tree, flat = build([o1, o2], [])
            k += 1
            ret = tree.ty
            out.append(P(f"f8_pair_{k}", "F8", Program([fn_main([("a", t), ("b", t), ("c", t)], ret, [], Node("rawsrc", ret, text=flat, tree=tree))]), {"value"}))
    # the multiplicative level has three members: * / % (left-associative among themselves, above + and -)
    for o1 in arith + ["/", "%"]:
        for o2 in arith + ["/", "%"]:
            if o1 in arith and o2 in arith:
                continue
            tree, flat = build([o1, o2], [])
            k += 1
            out.append(P(f"f8_muldivrem_{k}", "F8", Program([fn_main([("a", t), ("b", t), ("c", t)], t, [], Node("rawsrc", t, text=flat, tree=tree))]), {"value"}))
    for ops in (["*", "%", "+"], ["/", "%", "*"], ["-", "/", "%"], ["%", "*", "/"], ["+", "%", "*", "-"]):
        lits = [7, 3][:max(0, len(ops) + 1 - 3)]
        tree, flat = build(ops, lits)
        k += 1
        out.append(P(f"f8_muldivrem_{k}", "F8", Program([fn_main([("a", t), ("b", t), ("c", t)], t, [], Node("rawsrc", t, text=flat, tree=tree))]), {"value"}))
    for i in range(n_random):
        n = rng.randint(3, 5)
        ops = [rng.choice(arith) for _ in range(n)]
        if rng.random() < 0.5:
            ops[rng.randrange(n)] = rng.choice(CMP)
        lits = [rng.choice([2, 3, 5, 7]) for _ in range(n)]
        tree, flat = build(ops, lits)
        out.append(P(f"f8_chain_{seed}_{i}", "F8", Program([fn_main([("a", t), ("b", t), ("c", t)], tree.ty, [], Node("rawsrc", tree.ty, text=flat, tree=tree))]), {"value"}))
    # logical chains over comparisons
    for ops in [["<", "&&", ">"], ["==", "||", "!="], ["+", "<", "&&", "*", ">="]]:
        pass
    return out


# ------------------------------------------------------------------------------------------- F9 division
def f9_cells():
    out = []
    for t in INT_T:
        a, b = Var("a", t), Var("b", t)
        zero = Lit(t, 0)
        for op in ["/", "%"]:
            guard = Bin("!=", b, zero, "bool")
            if INTS[t][1]:
                guard = Bin("&&", guard, Bin("!=", b, Lit(t, -1), "bool"), "bool")
            out.append(P(f"f9_{t}_{opname(op)}_guarded", "F9", Program([fn_main([("a", t), ("b", t)], t, [], If(guard, Block([], Bin(op, a, b, t), t), Block([], zero, t), t))]), {"trap", "value"}))
            # guards written with every comparison operator (a mis-lowered comparison lets trapping operands through)
            if INTS[t][1]:
                guards = {"gt": Bin(">", b, zero, "bool"), "ge": Bin(">=", b, Lit(t, 1), "bool"),
                          "lt": Bin("&&", Bin("<", zero, b, "bool"), Bin("<", Lit(t, -1), b, "bool"), "bool"),
                          "le": Bin("<=", Lit(t, 1), b, "bool")}
            else:
                guards = {"gt": Bin(">", b, zero, "bool"), "ge": Bin(">=", b, Lit(t, 1), "bool"), "lt": Bin("<", zero, b, "bool"), "le": Bin("<=", Lit(t, 1), b, "bool")}
            for gname, g in guards.items():
                out.append(P(f"f9_{t}_{opname(op)}_guard_{gname}", "F9", Program([fn_main([("a", t), ("b", t)], t, [], If(g, Block([], Bin(op, a, b, t), t), Block([], zero, t), t))]), {"trap", "value"}))
            out.append(P(f"f9_{t}_{opname(op)}_const_divisor", "F9", Program([fn_main([("a", t), ("b", t)], t, [], Bin(op, a, Lit(t, 3), t))]), {"trap", "value"}))
    return out


# ------------------------------------------------------------------------------------------- F10 boundary identity (C05)
def f10_cells():
    out = []
    scal = INT_T + FLT_T + ["bool", "char"]
    for t in scal:
        a = Var("a", t)
        out.append(P(f"f10_id_{t}", "F10", Program([fn_main([("a", t)], t, [], a)]), {"value"}))
        if t != "bool":
            out.append(P(f"f10_through_host_{t}", "F10", Program([fn_main([("a", t)], t, [ExprStmt(Host(f"emit_{t}", [a], "unit"))], Host(f"pure_{t}", [a], t))]), {"value", "trace"}))
    # Option / Verdict built in the script and read by Rust; Option passed in by Rust and matched in the script
    i32, u8, u64 = "i32", "u8", "u64"
    a, b = Var("a", i32), Var("b", i32)
    oi = ("opt", i32)
    out.append(P("f10_ret_option_i32", "F10", Program([fn_main([("a", i32), ("b", i32)], oi, [], If(Bin("<", a, b, "bool"), Block([], Ctor(oi, "Some", [Bin("-", a, b, i32)]), oi), Block([], Ctor(oi, "None", []), oi), oi))]), {"value"}))
    out.append(P("f10_ret_option_i32_1", "F10", Program([fn_main([("a", i32)], oi, [], If(Bin(">", a, Lit(i32, 0), "bool"), Block([], Ctor(oi, "Some", [a]), oi), Block([], Ctor(oi, "None", []), oi), oi))]), {"value"}))
    ou8 = ("opt", u8)
    x8 = Var("a", u8)
    out.append(P("f10_ret_option_u8", "F10", Program([fn_main([("a", u8)], ou8, [], If(Bin(">", x8, Lit(u8, 7), "bool"), Block([], Ctor(ou8, "Some", [x8]), ou8), Block([], Ctor(ou8, "None", []), ou8), ou8))]), {"value"}))
    ou64 = ("opt", u64)
    x64 = Var("a", u64)
    out.append(P("f10_ret_option_u64", "F10", Program([fn_main([("a", u64)], ou64, [], If(Bin(">", x64, Lit(u64, 7), "bool"), Block([], Ctor(ou64, "Some", [Bin("*", x64, Lit(u64, 3), u64)]), ou64), Block([], Ctor(ou64, "None", []), ou64), ou64))]), {"value"}))
    o = Var("o", oi)
    out.append(P("f10_arg_option_i32", "F10", Program([fn_main([("o", oi)], i32, [], Match(o, [("Some", ["v"], None, Bin("+", Var("v", i32), Lit(i32, 1), i32)), ("None", [], None, Lit(i32, -7))], i32))]), {"value"}))
    out.append(P("f10_arg_option_i32_second", "F10", Program([fn_main([("o", oi), ("b", i32)], i32, [Let("p", oi, o)], Match(Var("p", oi), [("Some", ["v"], Bin(">", Var("v", i32), b, "bool"), Var("v", i32)), ("Some", ["v"], None, b), ("None", [], None, Bin("-", b, Lit(i32, 1), i32))], i32))]), {"value"}))
    vii = ("verdict", i32, i32)
    out.append(P("f10_ret_verdict_i32_i32", "F10", Program([fn_main([("a", i32), ("b", i32)], vii, [], If(Bin("<", a, b, "bool"), Block([], Ctor(vii, "Accept", [a]), vii), Block([], Ctor(vii, "Reject", [Bin("+", b, Lit(i32, 1), i32)]), vii), vii))]), {"value"}))
    v8 = ("verdict", u8, u64)
    a8, b8 = Var("a", u8), Var("b", u8)
    out.append(P("f10_ret_verdict_u8_u64", "F10", Program([fn_main([("a", u8), ("b", u8)], v8, [], If(Bin("<", a8, b8, "bool"), Block([], Ctor(v8, "Accept", [b8]), v8), Block([], Ctor(v8, "Reject", [Lit(u64, 0x1122334455667788)]), v8), v8))]), {"value"}))
    # constants registered by the host library (extract/src/main.rs): the script must see the Rust value
    consts = [("K_U8", "u8", 0xA5), ("K_I16", "i16", -2), ("K_U32", "u32", 0xDEADBEEF), ("K_I64", "i64", -0x1122334455667788), ("K_BOOL", "bool", True)]
    for cname, ct, cv in consts:
        if ct == "bool":
            body = If(Const(cname, ct, cv), Block([], Lit(i32, 1), i32), Block([], Lit(i32, 0), i32), i32)
            out.append(P(f"f10_const_{cname.lower()}", "F10", Program([fn_main([("a", i32)], i32, [], body)]), {"value"}))
        else:
            x = Var("a", ct)
            out.append(P(f"f10_const_{cname.lower()}", "F10", Program([fn_main([("a", ct)], ct, [], Bin("+", x, Const(cname, ct, cv), ct))]), {"value"}))
    for cname, ct, cv in [("K_OPT_U32", ("opt", "u32"), ("Some", 5)), ("K_OPT_NONE_U64", ("opt", "u64"), ("None",)), ("K_OPT_U8", ("opt", "u8"), ("Some", 200))]:
        it = ct[1]
        out.append(P(f"f10_const_{cname.lower()}", "F10", Program([fn_main([("a", it)], it, [], Match(Const(cname, ct, cv), [
            ("Some", ["v"], None, Bin("+", Var("v", it), Var("a", it), it)), ("None", [], None, Var("a", it))], it))]), {"value"}))
    vc = ("verdict", "u8", "u64")
    out.append(P("f10_const_k_ver", "F10", Program([fn_main([("a", u64)], u64, [], Match(Const("K_VER_U8_U64", vc, ("Accept", 7)), [
        ("Accept", ["v"], None, Bin("+", x64, Lit(u64, 1), u64)), ("Reject", ["w"], None, Var("w", u64))], u64))]), {"value"}))
    # Option / Result built by a registered Rust function and taken apart by the script
    u32 = "u32"
    au = Var("a", u32)
    ou32, ru = ("opt", u32), ("result", u32, i32)
    out.append(P("f10_host_returns_option", "F10", Program([fn_main([("a", u32)], u32, [], Match(Host("opt_of", [au], ou32), [
        ("Some", ["v"], None, Bin("+", Var("v", u32), Lit(u32, 1), u32)), ("None", [], None, au)], u32))]), {"value", "trace"}))
    out.append(P("f10_host_returns_result", "F10", Program([fn_main([("a", u32)], u32, [], Match(Host("res_of", [au], ru), [
        ("Ok", ["v"], None, Bin("+", Var("v", u32), Lit(u32, 1), u32)),
        ("Err", ["e"], None, If(Bin("<", Var("e", i32), Lit(i32, 0), "bool"), Block([], Lit(u32, 2), u32), Block([], Lit(u32, 3), u32), u32))], u32))]), {"value", "trace"}))
    out.append(P("f10_host_returns_result_payload_to_host", "F10", Program([fn_main([("a", u32)], u32, [Let("r", ru, Host("res_of", [au], ru))], Match(Var("r", ru), [
        ("Ok", ["v"], None, Block([ExprStmt(Host("emit_u32", [Var("v", u32)], "unit"))], Var("v", u32), u32)),
        ("Err", ["e"], None, Block([ExprStmt(Host("emit_i32", [Var("e", i32)], "unit"))], Lit(u32, 0), u32))], u32))]), {"value", "trace"}))
    # `()` arguments to registered functions take no machine argument; the arguments after them arrive unchanged
    bu = Var("b", u32)
    unit = Lit("unit", None)
    out.append(P("f10_host_unit_param_first", "F10", Program([fn_main([("a", u32), ("b", u32)], u32, [], Bin("+", Host("after_unit", [unit, au], u32), bu, u32))]), {"value", "trace"}))
    out.append(P("f10_host_unit_param_middle", "F10", Program([fn_main([("a", u32), ("b", u32)], u32, [], Host("around_unit", [au, unit, bu], u32))]), {"value", "trace"}))
    # a zero-sized registered type (`Val<Zst>`) in front of another argument: the Rust side passes a pointer for it, the value
    # after it must arrive unchanged - from Rust into the script and from the script into a registered function
    out.append(P("f10_zst_then_scalar_from_rust", "F10Z", Program([fn_main([("z", "Zst"), ("x", u32)], u32, [], Bin("+", Var("x", u32), Lit(u32, 1), u32))]), {"value"}))
    out.append(P("f10_zst_then_scalar_to_host", "F10Z", Program([fn_main([("z", "Zst"), ("x", u32)], u32, [], Host("after_zst", [Var("z", "Zst"), Var("x", u32)], u32))]), {"value", "trace"}))
    viu = ("verdict", i32, "unit")
    out.append(P("f10_ret_verdict_i32_unit", "F10", Program([fn_main([("a", i32)], viu, [], If(Bin("<", a, Lit(i32, 0), "bool"), Block([], Ctor(viu, "Accept", [a]), viu), Block([], Ctor(viu, "Reject", [Lit("unit", None)]), viu), viu))]), {"value"}))
    return out


# ------------------------------------------------------------------------------------------- F11 lists
def f11_cells():
    out = []
    T = "Tracked"
    a, b = Var("a", "i32"), Var("b", "i32")
    zero, one = Lit("i32", 0), Lit("i32", 1)
    mk = lambda e: Host("mk", [e], T)
    peek = lambda e: Host("peek", [e], "i32")
    lt = ("list", T)
    tot = Var("total", "i32")
    t = Var("t", T)
    three = ListLit(lt, [mk(Lit("i32", 1)), mk(Lit("i32", 2)), mk(Lit("i32", 3))])
    cases = {
        "for_complete": ([Let("total", "i32", zero), ExprStmt(For("t", T, three, Block([Assign(tot, peek(t), "+")], None, "unit")))], tot),
        "for_early_return": ([Let("total", "i32", zero), ExprStmt(For("t", T, three, Block([
            ExprStmt(If(Bin("==", peek(t), a, "bool"), Block([ExprStmt(Ret(Bin("+", tot, Lit("i32", 100), "i32")))], None, "unit"), None, "unit")),
            Assign(tot, one, "+")], None, "unit")))], tot),
        "for_unused_elem": ([Let("total", "i32", zero), ExprStmt(For("t", T, three, Block([Assign(tot, one, "+")], None, "unit")))], tot),
        "list_unused": ([Let("l", lt, ListLit(lt, [mk(a), mk(b)]))], a),
        "list_copy_push": ([Let("l", lt, ListLit(lt, [mk(a)])), Let("m", lt, Var("l", lt)), ExprStmt(Method(Var("m", lt), "push", [mk(b)], "unit")),
                            Let("total", "i32", zero), ExprStmt(For("t", T, Var("l", lt), Block([Assign(tot, peek(t), "+")], None, "unit")))], tot),
        "get_some_none": ([Let("l", lt, ListLit(lt, [mk(a), mk(b)]))], Match(Method(Var("l", lt), "get", [Lit("u64", 1)], ("opt", T)), [
            ("Some", ["x"], Bin(">", b, zero, "bool"), peek(Var("x", T))), ("Some", ["x"], None, zero), ("None", [], None, one)], "i32")),
        "for_empty": ([Let("l", lt, ListLit(lt, [mk(a)])), Let("total", "i32", zero),
                       ExprStmt(If(Bin(">", a, zero, "bool"), Block([ExprStmt(For("t", T, Var("l", lt), Block([Assign(tot, peek(t), "+")], None, "unit")))], None, "unit"), None, "unit"))], tot),
    }
    for name, (stmts, e) in cases.items():
        out.append(P(f"f11_tracked_{name}", "F11", Program([fn_main([("a", "i32"), ("b", "i32")], "i32", stmts, e)]), {"ledger", "value", "trace"}))
    # lists are the one shared type: copies observe pushes, also from inside a for loop over the list
    u = "u64"
    x, y = Var("a", u), Var("b", u)
    lu = ("list", u)
    l, m = Var("l", lu), Var("m", lu)
    tt = Var("t", u)
    out.append(P("f11_shared_push", "F11", Program([fn_main([("a", u), ("b", u)], u, [
        Let("l", lu, ListLit(lu, [x, y])), Let("m", lu, l), ExprStmt(Method(m, "push", [Lit(u, 7)], "unit")),
        Let("t", u, Method(l, "len", [], u)),
        ExprStmt(For("e", u, l, Block([Assign(tt, Var("e", u), "+")], None, "unit")))],
        Match(Method(m, "get", [y], ("opt", u)), [("Some", ["v"], None, Bin("+", tt, Var("v", u), u)), ("None", [], None, tt)], u))]), {"value"}))
    out.append(P("f11_push_inside_for", "F11", Program([fn_main([("a", u), ("b", u)], u, [
        Let("l", lu, ListLit(lu, [x])), Let("t", u, Lit(u, 0)),
        ExprStmt(For("e", u, l, Block([
            ExprStmt(If(Bin("<", Method(l, "len", [], u), Lit(u, 3), "bool"), Block([ExprStmt(Method(l, "push", [Bin("+", Var("e", u), y, u)], "unit"))], None, "unit"), None, "unit")),
            Assign(tt, Var("e", u), "+")], None, "unit")))], Bin("+", tt, Method(l, "len", [], u), u))]), {"value"}))
    # the for loop iterates over the list the variable held when the loop started, even if the body re-assigns the variable
    out.append(P("f11_for_over_variable_reassigned", "F11", Program([fn_main([("a", u), ("b", u)], u, [
        Let("l", lu, ListLit(lu, [Lit(u, 1), Lit(u, 2), Lit(u, 3)])), Let("t", u, Lit(u, 0)),
        ExprStmt(For("e", u, l, Block([
            ExprStmt(If(Bin("==", Var("e", u), x, "bool"), Block([Assign(l, ListLit(lu, [Lit(u, 10), Lit(u, 20), Lit(u, 30), Lit(u, 40)]))], None, "unit"), None, "unit")),
            Assign(tt, Var("e", u), "+")], None, "unit")))], Bin("+", tt, Method(l, "len", [], u), u))]), {"value"}))
    # element order of a list literal with effects
    i32 = "i32"
    pu = lambda e: Host("pure_i32", [e], i32)
    li = ("list", i32)
    c = Var("c", i32)
    out.append(P("f11_literal_element_order", "F11", Program([fn_main([("a", i32), ("b", i32), ("c", i32)], i32, [
        Let("l", li, ListLit(li, [pu(a), pu(pu(b)), pu(c)])), Let("s", i32, zero),
        ExprStmt(For("e", i32, Var("l", li), Block([Assign(Var("s", i32), Bin("-", Bin("*", Var("s", i32), Lit(i32, 3), i32), Var("e", i32), i32))], None, "unit")))], Var("s", i32))]), {"trace", "value"}))
    return out


# ------------------------------------------------------------------------------------------- F13 strings and f-strings
def f13_cells():
    out = []
    S = "String"
    i32 = "i32"
    a, b = Var("a", i32), Var("b", i32)
    zero, one = Lit(i32, 0), Lit(i32, 1)
    s_, t_ = Var("s", S), Var("t", S)
    lit = StrLit
    em = lambda e: Host("emit_str", [e], "unit")
    pu = lambda e: Host("pure_i32", [e], i32)
    cat = lambda x, y: Bin("+", x, y, S)
    cases = {
        "unused": ([Let("s", S, lit("abc"))], a),
        "emit_in_branch": ([Let("s", S, cat(lit("ab"), lit("cd"))), ExprStmt(If(Bin(">", a, b, "bool"), Block([ExprStmt(em(s_))], None, "unit"), None, "unit"))], b),
        "copy_is_value": ([Let("s", S, lit("x")), Let("t", S, s_), Assign(t_, cat(t_, lit("y"))), ExprStmt(em(s_)), ExprStmt(em(t_))], a),
        "eq_shortcircuit": ([Let("s", S, lit("x"))], If(Bin("&&", Bin(">", a, zero, "bool"), Bin("==", cat(s_, lit("y")), lit("xy"), "bool"), "bool"), Block([], one, i32), Block([], zero, i32), i32)),
        "early_return": ([Let("s", S, lit("p")), ExprStmt(If(Bin(">", a, b, "bool"), Block([ExprStmt(Ret(a))], None, "unit"), None, "unit")), Let("t", S, cat(s_, lit("q"))), ExprStmt(em(t_))], b),
        "overwrite": ([Let("s", S, lit("one")), ExprStmt(If(Bin("<", a, b, "bool"), Block([Assign(s_, lit("two"))], None, "unit"), None, "unit")), ExprStmt(em(s_))], a),
        "fstring_numbers": ([ExprStmt(em(FStr(["a=", a, " b=", b, "!"])))], a),
        "fstring_effect_order": ([ExprStmt(em(FStr([pu(a), "-", pu(pu(b)), "-", pu(Bin("+", a, b, i32))])))], a),
        "fstring_nested": ([Let("s", S, FStr(["<", a, ">"])), ExprStmt(em(FStr([s_, "|", s_, "|", FStr(["(", b, ")"])])))], b),
        "fstring_in_branch": ([Let("s", S, lit("k")), ExprStmt(If(Bin("==", a, b, "bool"), Block([ExprStmt(em(FStr([s_, "=", a])))], None, "unit"), Block([ExprStmt(em(FStr(["no ", b])))], None, "unit"), "unit"))], a),
        "fstring_unused": ([Let("s", S, FStr([a, ":", b]))], a),
        "while_cond_string": ([Let("i", i32, zero), ExprStmt(While(Bin("&&", Bin("<", Var("i", i32), Lit(i32, 2), "bool"), Bin("!=", FStr([Var("i", i32)]), lit("7"), "bool"), "bool"),
                                Block([ExprStmt(em(FStr(["i", Var("i", i32)]))), Assign(Var("i", i32), one, "+")], None, "unit")))], Var("i", i32)),
        "fstring_bool_and_types": ([ExprStmt(em(FStr([Bin("<", a, b, "bool"), " ", Lit("u8", 200), " ", Lit("i64", -5)])))], a),
    }
    # an f-string part that leaves the function early (the accumulator built so far must still be released)
    cases["fstring_part_returns"] = ([Let("s", S, lit("p"))], Block([ExprStmt(em(FStr(["v=", s_, ":", If(Bin(">", a, b, "bool"), Block([ExprStmt(Ret(one))], a, i32), Block([], b, i32), i32), "!"])))], zero, i32))
    cases["fstring_part_returns_first"] = ([], Block([ExprStmt(em(FStr([If(Bin("==", a, b, "bool"), Block([ExprStmt(Ret(one))], a, i32), Block([], b, i32), i32), "-", lit("tail")])))], zero, i32))
    cases["string_arg_read_order"] = ([Let("s", S, lit("old"))], Call("first_len", [s_, Block([Assign(s_, lit("new!"))], a, i32)], i32))
    # `+` / `+=` on strings lower to a runtime method: operands left to right, the target of `+=` read before its right-hand side
    # (sixth seeding round: both operands lowered before either was materialised)
    ps = lambda e: Host("pure_str", [e], S)
    cases["concat_operand_order"] = ([], Block([ExprStmt(em(cat(ps(lit("l")), ps(ps(lit("r"))))))], a, i32))
    cases["concat_left_read_before_right_assigns"] = ([Let("s", S, lit("old"))], Block([Let("t", S, cat(s_, Block([Assign(s_, lit("new"))], lit("!"), S))), ExprStmt(em(t_)), ExprStmt(em(s_))], a, i32))
    cases["append_assign_target_read_first"] = ([Let("s", S, lit("a"))], Block([Assign(s_, Block([Assign(s_, lit("b"))], ps(lit("7")), S), "+"), ExprStmt(em(s_))], b, i32))
    cases["concat_effects_in_branch_operand"] = ([], Block([ExprStmt(em(cat(ps(lit("x")), If(Bin("<", a, b, "bool"), Block([], ps(lit("lt")), S), Block([], cat(ps(lit("g")), ps(lit("e"))), S), S))))], a, i32))
    # Result / Verdict / user enum whose first variant holds a string and whose later variant a less aligned scalar: copies go through
    # the generated clone function, the scalar payload of the later variant must arrive unchanged (sixth seeding round)
    u8v = Var("c8", "u8")
    for nm, ety, okv, errv, scal in [("result_string_u32", ("result", S, "u32"), "Ok", "Err", "u32"), ("verdict_string_u8", ("verdict", S, "u8"), "Accept", "Reject", "u8"),
                                     ("result_string_u16", ("result", S, "u16"), "Ok", "Err", "u16")]:
        x = Var("x", scal)
        mk = If(Bin("<", x, Lit(scal, 100), "bool"), Block([], Ctor(ety, okv, [FStr(["v", x])]), ety), Block([], Ctor(ety, errv, [x]), ety), ety)
        prog = Program([FnDef("main", [("x", scal)], scal, Block([Let("r", ety, mk), Let("q", ety, Var("r", ety)), Let("w", ("opt", ety), Ctor(("opt", ety), "Some", [Var("q", ety)]))],
                        Match(Var("w", ("opt", ety)), [("Some", ["i"], None, Match(Var("i", ety), [(okv, ["t"], None, Block([ExprStmt(em(Var("t", S)))], Lit(scal, 1), scal)), (errv, ["e"], None, Var("e", scal))], scal)),
                                                       ("None", [], None, Lit(scal, 0))], scal), scal))])
        out.append(P(f"f13_clone_{nm}", "F13", prog, {"ledger", "value", "trace"}))
    for name, (stmts, e) in cases.items():
        helpers_ = [FnDef("first_len", [("p", S), ("n", i32)], i32, Block([ExprStmt(em(Var("p", S)))], Var("n", i32), i32))] if name == "string_arg_read_order" else []
        out.append(P(f"f13_{name}", "F13", Program(helpers_ + [fn_main([("a", i32), ("b", i32)], i32, stmts, e)]), {"ledger", "value", "trace"}))
    for name, (stmts, e) in {}.items():
        out.append(P(f"f13_{name}", "F13", Program([fn_main([("a", i32), ("b", i32)], i32, stmts, e)]), {"ledger", "value", "trace"}))
    # strings inside records / options
    rty = ("rec", "Named")
    out.append(P("f13_record_with_string", "F13", Program([fn_main([("a", i32), ("b", i32)], i32, [
        Let("r", rty, RecLit(rty, [("n", a), ("s", FStr(["n", a]))])), Let("q", rty, Var("r", rty)),
        Assign(Field(Var("q", rty), "s", S), cat(Field(Var("q", rty), "s", S), lit("+"))),
        ExprStmt(em(Field(Var("r", rty), "s", S))), ExprStmt(em(Field(Var("q", rty), "s", S)))], Field(Var("q", rty), "n", i32))],
        records={"Named": [("n", i32), ("s", S)]}), {"ledger", "value", "trace"}))
    # structural equality of records whose by-reference field comes first / in the middle
    for idx, fields in enumerate([[("name", S), ("id", "i64")], [("id", "i64"), ("name", S)], [("k", "u8"), ("name", S), ("id", "i64")]]):
        rn = f"Rs{idx}"
        rty2 = ("rec", rn)

        def mkrec(namepart, idv):
            return RecLit(rty2, [(f, (FStr(["n", namepart]) if t == S else (Lit(t, 7) if t == "u8" else idv))) for f, t in fields])
        a64, b64 = Var("a", "i64"), Var("b", "i64")
        prog = Program([fn_main([("a", "i64"), ("b", "i64")], "i64", [Let("x", rty2, mkrec(a64, b64)), Let("y", rty2, mkrec(a64, b64)), Let("z", rty2, mkrec(b64, b64))],
                                If(Bin("==", Var("x", rty2), Var("y", rty2), "bool"),
                                   Block([], If(Bin("!=", Var("x", rty2), Var("z", rty2), "bool"), Block([], Lit("i64", 1), "i64"), Block([], Lit("i64", 2), "i64"), "i64"), "i64"),
                                   Block([], Lit("i64", 3), "i64"), "i64"))], records={rn: fields})
        out.append(P(f"f13_record_eq_string_field_{idx}", "F13", prog, {"ledger", "value"}))
    oty = ("opt", S)
    out.append(P("f13_option_string_match", "F13", Program([fn_main([("a", i32), ("b", i32)], i32, [
        Let("o", oty, If(Bin(">", a, b, "bool"), Block([], Ctor(oty, "Some", [FStr(["v", a])]), oty), Block([], Ctor(oty, "None", []), oty), oty))],
        Match(Var("o", oty), [("Some", ["x"], Bin("==", Var("x", S), lit("v3"), "bool"), one),
                              ("Some", ["x"], None, Block([ExprStmt(em(Var("x", S)))], zero, i32)),
                              ("None", [], None, b)], i32))]), {"ledger", "value", "trace"}))
    return out


def corpus(seed, tier):
    quick = tier == "quick"
    n3 = 150 if quick else 4000
    n7 = 60 if quick else 2000
    n12 = 80 if quick else 2400
    progs = f1_cells() + f2_cells() + f3_random(seed, n3) + f4_cells() + f5_cells(seed, 8 if quick else 240) + f6_cells() \
        + f7_cells() + f10_cells() + f11_cells() + f3_random(seed + 1000, n7, depth=2, effects=True, fam="F7R") \
        + f8_cells(seed, 40 if quick else 1600) + f9_cells() + f12_random(seed, n12, False) + f12_random(seed, n12 // 2, True) \
        + f6_random(seed, 60 if quick else 2400) + f13_cells() + filtermap_cells()
    if not quick:
        progs += f3_random(seed + 5000, 1200, depth=4, fam="F3")
    return progs
