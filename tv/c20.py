"""C20 decision: for every straight-line program of the corpus, the value the LIR evaluator computes (engine M: eval's
MIR arms interpreted symbolically over the LIR the real compiler produced) equals the value of the emitted CLIF
(engine T) for ALL arguments on which the evaluator does not stop loudly."""
import json, os, re, sys, time
import z3
import mir as M
import tv, lang, clif
from clif import Explorer, World, Path, Ptr, PathCut


# ---- parser for Rust `{:?}` output ------------------------------------------------------------
class D:
    def __init__(self, name, fields=None, items=None):
        self.name, self.fields, self.items = name, fields, items   # fields: ordered list of (key, value) | items: list

    def __repr__(self):
        return f"D({self.name},{self.fields},{self.items})"


def parse_debug(s):
    pos = [0]

    def ws():
        while pos[0] < len(s) and s[pos[0]] in " \n":
            pos[0] += 1

    def value():
        ws()
        if s[pos[0]] == "[":
            pos[0] += 1
            items = []
            while True:
                ws()
                if s[pos[0]] == "]":
                    pos[0] += 1
                    return D("[]", items=items)
                items.append(value())
                ws()
                if s[pos[0]] == ",":
                    pos[0] += 1
        if s[pos[0]] == "(":
            pos[0] += 1
            items = []
            while True:
                ws()
                if s[pos[0]] == ")":
                    pos[0] += 1
                    return D("()", items=items)
                items.append(value())
                ws()
                if s[pos[0]] == ",":
                    pos[0] += 1
        if s[pos[0]] == '"':
            j = s.index('"', pos[0] + 1)
            v = s[pos[0] + 1:j]
            pos[0] = j + 1
            return v
        m = re.compile(r"[A-Za-z_0-9:.+\-']+").match(s, pos[0])
        tok = m.group(0)
        pos[0] = m.end()
        ws()
        if pos[0] < len(s) and s[pos[0]] == "{":
            pos[0] += 1
            fields = []
            while True:
                ws()
                if s[pos[0]] == "}":
                    pos[0] += 1
                    return D(tok, fields=fields)
                km = re.compile(r"\w+").match(s, pos[0])
                pos[0] = km.end()
                ws()
                assert s[pos[0]] == ":"
                pos[0] += 1
                fields.append((km.group(0), value()))
                ws()
                if s[pos[0]] == ",":
                    pos[0] += 1
        if pos[0] < len(s) and s[pos[0]] == "(":
            pos[0] += 1
            items = []
            while True:
                ws()
                if s[pos[0]] == ")":
                    pos[0] += 1
                    return D(tok, items=items)
                items.append(value())
                ws()
                if s[pos[0]] == ",":
                    pos[0] += 1
        return tok
    return value()


TAG_OF = {"u8": "U8", "u16": "U16", "u32": "U32", "u64": "U64", "i8": "I8", "i16": "I16", "i32": "I32", "i64": "I64",
          "f32": "F32", "f64": "F64", "bool": "Bool", "char": "Char"}
RUST_TY = {v: k for k, v in TAG_OF.items()}


def irvalue_of(ty, term):
    return M.EnumV("IrValue", TAG_OF[ty], [M.Scalar(term, ty)])


def lit_irvalue(d):
    """IrValue literal in the LIR, e.g. I32(0) / F64(1.5) / Bool(true)"""
    tag, raw = d.name, d.items[0]
    ty = RUST_TY[tag]
    if ty == "bool":
        return M.EnumV("IrValue", tag, [M.Scalar(z3.BoolVal(raw == "true"), "bool")])
    if ty in ("f32", "f64"):
        return M.EnumV("IrValue", tag, [M.Scalar(z3.FPVal(float(raw), z3.Float32() if ty == "f32" else z3.Float64()), ty)])
    if ty == "char":
        return M.EnumV("IrValue", tag, [M.Scalar(z3.BitVecVal(ord(raw.strip("'")), 32), "char")])
    return M.EnumV("IrValue", tag, [M.Scalar(z3.BitVecVal(int(raw), M.INT_BITS[ty]), ty)])


SUPPORTED = {"Assign", "Add", "Sub", "Mul", "Div", "Mod", "FDiv", "IntCmp", "FloatCmp", "Not", "Negate", "Return"}


def eval_side(mirobj, lir, params, arg_terms, overflow_checks):
    """Symbolic run of the LIR instruction list through eval's MIR arms. Returns (IrValue EnumV, [loud conditions])"""
    vars_ = {}
    for (n, t), term in zip(params, arg_terms):
        vars_[f"Explicit:{n}"] = irvalue_of(t, term)
    loud = []

    def varkey(d):
        k = dict(d.fields)["kind"]
        if isinstance(k, D):
            inner = k.items[0]
            if isinstance(inner, D):      # Identifier("a")
                inner = inner.items[0]
            return f"{k.name}:{inner}"
        return str(k)

    for text in lir:
        d = parse_debug(text)
        if d.name not in SUPPORTED:
            raise M.Unsupported(f"LIR instruction {d.name} (not straight-line scalar code)")
        if d.name == "Return":
            inner = d.items[0]
            if not isinstance(inner, D) or inner.name != "Some":
                raise M.Unsupported("Return(None)")
            op = inner.items[0]
            v = vars_[varkey(op.items[0])] if op.name == "Place" else lit_irvalue(op.items[0])
            return v, loud
        fields, operand_values = [], []
        for k, v in d.fields:
            if isinstance(v, D) and v.name in ("Place", "Value"):
                if v.name == "Place":
                    key = varkey(v.items[0])
                    if key not in vars_:
                        raise M.Unsupported(f"read of unknown variable {key}")
                    val = vars_[key]
                else:
                    val = lit_irvalue(v.items[0])
                o = M.EnumV("Operand", v.name, [M.Opaque("inner")])
                operand_values.append((o, val))
                fields.append(o)
            elif k == "cmp":
                fields.append(M.EnumV("IntCmp" if d.name == "IntCmp" else "FloatCmp", v, []))
            elif k == "signed":
                fields.append(M.Scalar(z3.BoolVal(v == "true"), "bool"))
            else:
                fields.append(M.Opaque(k))
        st, val, lc = M.run_instruction(mirobj, d.name, fields, operand_values, overflow_checks)
        loud += [c for _, c in lc]
        if st == "loud":
            loud.append(z3.BoolVal(True))
            return None, loud
        to = dict(d.fields)["to"]
        vars_[varkey(to)] = val
    raise M.Unsupported("no Return")


CF_SUPPORTED = SUPPORTED | {"Jump", "Switch"}


def eval_path(mirobj, blocks, params, arg_terms, overflow_checks, decide, k_loop):
    """One path of the evaluator over the LIR of `main` WITH its block structure. Jump / Switch are followed (the
    examinee goes through the MIR of IrValue::switch_on; the branch table lookup is modelled: first entry whose index
    equals the examinee, else default). Wherever the evaluator could stop loudly the path continues only on the
    inputs on which it does not (force-decide); if there are none the path is cut."""
    vars_ = {}
    for (n, t), term in zip(params, arg_terms):
        vars_[f"Explicit:{n}"] = irvalue_of(t, term)
    bmap = {label: ins for label, ins in blocks}
    label = blocks[0][0]
    visits = {}

    def varkey(d):
        k = dict(d.fields)["kind"]
        if isinstance(k, D):
            inner = k.items[0]
            if isinstance(inner, D):
                inner = inner.items[0]
            return f"{k.name}:{inner}"
        return str(k)

    def operand(v):
        if v.name == "Place":
            key = varkey(v.items[0])
            if key not in vars_:
                raise M.Unsupported(f"read of unknown variable {key}")
            return vars_[key]
        return lit_irvalue(v.items[0])

    while True:
        visits[label] = visits.get(label, 0) + 1
        if visits[label] > 4 * k_loop + 4:
            raise PathCut("evaluator loop bound")
        jumped = False
        for text in bmap[label]:
            d = parse_debug(text)
            if d.name not in CF_SUPPORTED:
                raise M.Unsupported(f"LIR instruction {d.name}")
            if d.name == "Jump":
                label = f"{d.items[0].name}({d.items[0].items[0]})"
                jumped = True
                break
            if d.name == "Return":
                inner = d.items[0]
                if not isinstance(inner, D) or inner.name != "Some":
                    raise M.Unsupported("Return(None)")
                return operand(inner.items[0])
            if d.name == "Switch":
                f = dict(d.fields)
                ex = operand(f["examinee"])
                it = M.Interp(mirobj, overflow_checks, {})
                f2 = mirobj.fn(r"lir::value::<impl at src/lir/value\.rs:[\d: ]+>::switch_on$")
                try:
                    x = it.run(f2, "bb0", M._Env({f2["params"][0]: M.Ref(lambda ex=ex: ex)}), 1)
                except M.Loud:
                    raise PathCut("loud")
                x64 = z3.ZeroExt(32, x.t)
                target = None
                for entry in f["branches"].items:
                    idx, lab = entry.items
                    if decide(z3.simplify(x64 == z3.BitVecVal(int(idx), 64)), f"switch {idx}"):
                        target = lab
                        break
                if target is None:
                    target = f["default"]
                label = f"{target.name}({target.items[0]})"
                jumped = True
                break
            fields, operand_values = [], []
            for k, v in d.fields:
                if isinstance(v, D) and v.name in ("Place", "Value"):
                    val = operand(v)
                    o = M.EnumV("Operand", v.name, [M.Opaque("inner")])
                    operand_values.append((o, val))
                    fields.append(o)
                elif k == "cmp":
                    fields.append(M.EnumV("IntCmp" if d.name == "IntCmp" else "FloatCmp", v, []))
                elif k == "signed":
                    fields.append(M.Scalar(z3.BoolVal(v == "true"), "bool"))
                else:
                    fields.append(M.Opaque(k))
            st, val, lc = M.run_instruction(mirobj, d.name, fields, operand_values, overflow_checks)
            for _, c in lc:
                if not decide(z3.Not(c), "not-loud", force=True):
                    raise PathCut("loud")
            if st == "loud":
                raise PathCut("loud")
            vars_[varkey(dict(d.fields)["to"])] = val
        if not jumped:
            raise M.Unsupported("block falls through")


def check_program_cf(mirobj, prog, dump, k_loop=3, timeout_ms=20000):
    """control-flow version: path-wise on both sides (evaluator paths x CLIF paths)"""
    out = {"status": "ok", "queries": 0, "finding": None, "reason": "", "profiles": {}}
    entry = [f for f in prog.fns if f.name == prog.entry][0]
    blocks = dump.get("lir_blocks", {}).get("pkg.main")
    if blocks is None:
        out["status"], out["reason"] = "unsupported", "no LIR captured"
        return out
    ref_args, cons = [], []
    for (n, t) in entry.params:
        v, c = lang.sym_value(t, f"arg_{n}")
        ref_args.append(v)
        cons += c
    world = World(dump, tv.host_models())

    def run_clif(decide):
        path = Path(world, decide, k_loop, 2)
        path.ledger = tv.Ledger()
        path.lists = {"stores": [], "handles": {}, "next": 5000}
        path.strings = {}
        args = [z3.BitVecVal(0, 64)] + [tv.scalar_to_clif(t, v) for (n, t), v in zip(entry.params, ref_args)]
        try:
            return path, path.call("pkg.main", args)
        except PathCut as e:
            e.path = path
            raise
    try:
        ex = Explorer(cons, 48, timeout_ms)
        cpaths = ex.explore(run_clif)
        out["queries"] += ex.queries
    except clif.Unsupported as e:
        out["status"], out["reason"] = "unsupported", "clif: " + str(e)
        return out
    for ovf in (True, False):
        prof = "overflow-checks=" + ("on" if ovf else "off")
        try:
            ex2 = Explorer(cons, 48, timeout_ms)
            epaths = ex2.explore(lambda decide: eval_path(mirobj, blocks, entry.params, ref_args, ovf, decide, k_loop))
            out["queries"] += ex2.queries
        except M.Unsupported as e:
            out["status"], out["reason"] = "unsupported", "mir: " + str(e)
            return out
        except clif.Unsupported as e:
            out["status"], out["reason"] = "unsupported", "explorer: " + str(e)
            return out
        compared = 0
        for econds, eres in epaths:
            if isinstance(eres, PathCut):
                continue
            evt = eres.fields[0]
            tag_ty = RUST_TY[eres.variant]
            for cconds, cres in cpaths:
                if isinstance(cres, PathCut):
                    if str(cres) != "trap":
                        continue
                    # the compiled code traps on inputs where the evaluator completes
                    sv = z3.Solver()
                    sv.set("timeout", timeout_ms)
                    sv.add(cons + econds + cconds)
                    out["queries"] += 1
                    if sv.check() == z3.sat:
                        m = sv.model()
                        out["finding"] = {"profile": prof, "kind": "compiled code traps where the evaluator completes",
                                          "args": [tv.bits_of(m, t, v) for (n, t), v in zip(entry.params, ref_args)]}
                        return out
                    continue
                path, rv = cres
                if tag_ty == "bool":
                    diff = rv != z3.If(evt.t, z3.BitVecVal(1, 8), z3.BitVecVal(0, 8))
                elif tag_ty in ("f32", "f64"):
                    diff = z3.Not(rv == evt.t)
                else:
                    diff = rv != evt.t
                diff = z3.simplify(diff)
                compared += 1
                if z3.is_false(diff):
                    continue
                sv = z3.Solver()
                sv.set("timeout", timeout_ms)
                sv.add(cons + econds + cconds + [diff])
                out["queries"] += 1
                r = sv.check()
                if r == z3.sat:
                    m = sv.model()
                    out["finding"] = {"profile": prof, "args": [tv.bits_of(m, t, v) for (n, t), v in zip(entry.params, ref_args)],
                                      "evaluator_value": str(m.eval(evt.t, model_completion=True)), "compiled_value": str(m.eval(rv, model_completion=True))}
                    return out
                if r == z3.unknown:
                    out["status"], out["reason"] = "unsupported", "solver timeout"
                    return out
        done = len([1 for _, r in epaths if not isinstance(r, PathCut)])
        out["profiles"][prof.replace("-", "_").replace("=", "_")] = f"{done} evaluator path(s) x {len(cpaths)} compiled path(s), {compared} pairs compared: agree wherever the evaluator does not stop loudly"
    return out


def check_program(mirobj, prog, dump, timeout_ms=20000):
    """returns dict: status ok|unsupported|loud_only, queries, finding (model) or None"""
    out = {"status": "ok", "queries": 0, "finding": None, "reason": "", "profiles": {}}
    entry = [f for f in prog.fns if f.name == prog.entry][0]
    lir = dump["lir"].get("pkg.main")
    if lir is None:
        out["status"], out["reason"] = "unsupported", "no LIR captured"
        return out
    ref_args, cons = [], []
    for (n, t) in entry.params:
        v, c = lang.sym_value(t, f"arg_{n}")
        ref_args.append(v)
        cons += c
    # JIT side: the emitted CLIF (engine T encoding), must be a single completed path per feasible region
    world = World(dump, tv.host_models())

    def run_clif(decide):
        path = Path(world, decide, 2, 2)
        path.ledger = tv.Ledger()
        path.lists = {"stores": [], "handles": {}, "next": 5000}
        path.strings = {}
        args = [z3.BitVecVal(0, 64)] + [tv.scalar_to_clif(t, v) for (n, t), v in zip(entry.params, ref_args)]
        return path, path.call("pkg.main", args)
    ex = Explorer(cons, 8, timeout_ms)
    try:
        cpaths = ex.explore(run_clif)
    except clif.Unsupported as e:
        out["status"], out["reason"] = "unsupported", "clif: " + str(e)
        return out
    out["queries"] += ex.queries
    for ovf in (True, False):
        try:
            ev, loud = eval_side(mirobj, lir, entry.params, ref_args, ovf)
        except M.Unsupported as e:
            out["status"], out["reason"] = "unsupported", "mir: " + str(e)
            return out
        if ev is None:
            out["profiles"]["overflow_checks_on" if ovf else "overflow_checks_off"] = "evaluator stops loudly on every input"
            continue
        s = z3.Solver()
        s.set("timeout", timeout_ms)
        for c in cons:
            s.add(c)
        for c in loud:
            s.add(z3.Not(c))
        evt = ev.fields[0]
        for conds, res in cpaths:
            if isinstance(res, PathCut):
                continue      # trapping inputs of the compiled code: excluded there, the evaluator must be loud on them (checked below)
            path, rv = res
            tag_ty = RUST_TY[ev.variant]
            if tag_ty == "bool":
                diff = rv != z3.If(evt.t, z3.BitVecVal(1, 8), z3.BitVecVal(0, 8))
            elif tag_ty in ("f32", "f64"):
                diff = z3.Not(rv == evt.t)
            else:
                diff = rv != evt.t
            s.push()
            for c in conds:
                s.add(c)
            s.add(diff)
            out["queries"] += 1
            r = s.check()
            if r == z3.sat:
                m = s.model()
                out["finding"] = {"profile": "overflow-checks=" + ("on" if ovf else "off"),
                                  "args": [tv.bits_of(m, t, v) for (n, t), v in zip(entry.params, ref_args)],
                                  "evaluator_value": str(m.eval(evt.t, model_completion=True)), "compiled_value": str(m.eval(rv, model_completion=True))}
                s.pop()
                return out
            if r == z3.unknown:
                out["status"], out["reason"] = "unsupported", "solver timeout"
                s.pop()
                return out
            s.pop()
        # inputs on which the compiled code traps must be loud stops of the evaluator
        trap_conds = []
        for conds, res in cpaths:
            pth = res[0] if not isinstance(res, PathCut) else getattr(res, "path", None)
            for (tc, desc, pre) in (pth.trap_log if pth is not None else []):
                trap_conds.append(z3.And(list(pre) + [tc]))
        if trap_conds:
            s.push()
            s.add(z3.Or(trap_conds))
            out["queries"] += 1
            if s.check() == z3.sat:
                m = s.model()
                out["finding"] = {"profile": "overflow-checks=" + ("on" if ovf else "off"), "kind": "compiled code traps where the evaluator completes",
                                  "args": [tv.bits_of(m, t, v) for (n, t), v in zip(entry.params, ref_args)]}
                s.pop()
                return out
            s.pop()
        out["profiles"]["overflow_checks_on" if ovf else "overflow_checks_off"] = f"agrees wherever not loud ({len(loud)} loud-stop conditions)"
    return out


if __name__ == "__main__":
    import gen, tvrun
    repo = os.environ.get("VERIF_REPO", "/repo")
    mirobj = M.Mir(open(sys.argv[1]).read(), repo)
    progs = [p for p in gen.f1_cells() if True]
    import shutil
    shutil.rmtree(tvrun.WORK, ignore_errors=True)
    os.makedirs(os.path.join(tvrun.WORK, "src")); os.makedirs(os.path.join(tvrun.WORK, "dump"))
    paths = []
    for p in progs:
        f = os.path.join(tvrun.WORK, "src", p.meta["name"] + ".roto")
        open(f, "w").write(lang.program_src(p)); paths.append(f)
    tv.dump_programs(paths, os.path.join(tvrun.WORK, "dump"))
    from collections import Counter
    cnt = Counter()
    for p in progs:
        d = json.load(open(os.path.join(tvrun.WORK, "dump", p.meta["name"] + ".json")))
        o = check_program(mirobj, p, d)
        cnt[o["status"]] += 1
        if o["status"] != "ok" or o["finding"]:
            print(p.meta["name"], o["status"], o["reason"][:200], o["finding"])
    print(cnt)
