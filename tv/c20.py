"""C20 decision: for every straight-line program of the corpus, the value the LIR evaluator computes (engine M: eval's
MIR arms interpreted symbolically over the LIR the real compiler produced) equals the value of the emitted CLIF
(engine T) for ALL arguments on which the evaluator does not stop loudly."""
import json, os, re, sys, time
import z3
import mir as M
import tv, lang, clif
from clif import Explorer, World, Path, Ptr, PathCut


# ---- parser for Rust `{:?}` output ------------------------------------------------------------
class D:
    def __init__(self, name, fields=None, items=None):
        self.name, self.fields, self.items = name, fields, items   # fields: ordered list of (key, value) | items: list

    def __repr__(self):
        return f"D({self.name},{self.fields},{self.items})"


def parse_debug(s):
    pos = [0]

    def ws():
        while pos[0] < len(s) and s[pos[0]] in " \n":
            pos[0] += 1

    def value():
        ws()
        if s[pos[0]] == "[":
            pos[0] += 1
            items = []
            while True:
                ws()
                if s[pos[0]] == "]":
                    pos[0] += 1
                    return D("[]", items=items)
                items.append(value())
                ws()
                if s[pos[0]] == ",":
                    pos[0] += 1
        if s[pos[0]] == "(":
            pos[0] += 1
            items = []
            while True:
                ws()
                if s[pos[0]] == ")":
                    pos[0] += 1
                    return D("()", items=items)
                items.append(value())
                ws()
                if s[pos[0]] == ",":
                    pos[0] += 1
        if s[pos[0]] == '"':
            j = s.index('"', pos[0] + 1)
            v = s[pos[0] + 1:j]
            pos[0] = j + 1
            return v
        m = re.compile(r"[A-Za-z_0-9:.+\-']+").match(s, pos[0])
        tok = m.group(0)
        pos[0] = m.end()
        ws()
        if pos[0] < len(s) and s[pos[0]] == "{":
            pos[0] += 1
            fields = []
            while True:
                ws()
                if s[pos[0]] == "}":
                    pos[0] += 1
                    return D(tok, fields=fields)
                km = re.compile(r"\w+").match(s, pos[0])
                pos[0] = km.end()
                ws()
                assert s[pos[0]] == ":"
                pos[0] += 1
                fields.append((km.group(0), value()))
                ws()
                if s[pos[0]] == ",":
                    pos[0] += 1
        if pos[0] < len(s) and s[pos[0]] == "(":
            pos[0] += 1
            items = []
            while True:
                ws()
                if s[pos[0]] == ")":
                    pos[0] += 1
                    return D(tok, items=items)
                items.append(value())
                ws()
                if s[pos[0]] == ",":
                    pos[0] += 1
        return tok
    return value()


TAG_OF = {"u8": "U8", "u16": "U16", "u32": "U32", "u64": "U64", "i8": "I8", "i16": "I16", "i32": "I32", "i64": "I64",
          "f32": "F32", "f64": "F64", "bool": "Bool", "char": "Char"}
RUST_TY = {v: k for k, v in TAG_OF.items()}


def irvalue_of(ty, term):
    return M.EnumV("IrValue", TAG_OF[ty], [M.Scalar(term, ty)])


def lit_irvalue(d):
    """IrValue literal in the LIR, e.g. I32(0) / F64(1.5) / Bool(true)"""
    tag, raw = d.name, d.items[0]
    ty = RUST_TY[tag]
    if ty == "bool":
        return M.EnumV("IrValue", tag, [M.Scalar(z3.BoolVal(raw == "true"), "bool")])
    if ty in ("f32", "f64"):
        return M.EnumV("IrValue", tag, [M.Scalar(z3.FPVal(float(raw), z3.Float32() if ty == "f32" else z3.Float64()), ty)])
    if ty == "char":
        return M.EnumV("IrValue", tag, [M.Scalar(z3.BitVecVal(ord(raw.strip("'")), 32), "char")])
    return M.EnumV("IrValue", tag, [M.Scalar(z3.BitVecVal(int(raw), M.INT_BITS[ty]), ty)])


SUPPORTED = {"Assign", "Add", "Sub", "Mul", "Div", "Mod", "FDiv", "IntCmp", "FloatCmp", "Not", "Negate", "Return"}


def eval_side(mirobj, lir, params, arg_terms, overflow_checks):
    """Symbolic run of the LIR instruction list through eval's MIR arms. Returns (IrValue EnumV, [loud conditions])"""
    vars_ = {}
    for (n, t), term in zip(params, arg_terms):
        vars_[f"Explicit:{n}"] = irvalue_of(t, term)
    loud = []

    def varkey(d):
        k = dict(d.fields)["kind"]
        if isinstance(k, D):
            inner = k.items[0]
            if isinstance(inner, D):      # Identifier("a")
                inner = inner.items[0]
            return f"{k.name}:{inner}"
        return str(k)

    for text in lir:
        d = parse_debug(text)
        if d.name not in SUPPORTED:
            raise M.Unsupported(f"LIR instruction {d.name} (not straight-line scalar code)")
        if d.name == "Return":
            inner = d.items[0]
            if not isinstance(inner, D) or inner.name != "Some":
                raise M.Unsupported("Return(None)")
            op = inner.items[0]
            v = vars_[varkey(op.items[0])] if op.name == "Place" else lit_irvalue(op.items[0])
            return v, loud
        fields, operand_values = [], []
        for k, v in d.fields:
            if isinstance(v, D) and v.name in ("Place", "Value"):
                if v.name == "Place":
                    key = varkey(v.items[0])
                    if key not in vars_:
                        raise M.Unsupported(f"read of unknown variable {key}")
                    val = vars_[key]
                else:
                    val = lit_irvalue(v.items[0])
                o = M.EnumV("Operand", v.name, [M.Opaque("inner")])
                operand_values.append((o, val))
                fields.append(o)
            elif k == "cmp":
                fields.append(M.EnumV("IntCmp" if d.name == "IntCmp" else "FloatCmp", v, []))
            elif k == "signed":
                fields.append(M.Scalar(z3.BoolVal(v == "true"), "bool"))
            else:
                fields.append(M.Opaque(k))
        st, val, lc = M.run_instruction(mirobj, d.name, fields, operand_values, overflow_checks)
        loud += [c for _, c in lc]
        if st == "loud":
            loud.append(z3.BoolVal(True))
            return None, loud
        to = dict(d.fields)["to"]
        vars_[varkey(to)] = val
    raise M.Unsupported("no Return")


CF_SUPPORTED = SUPPORTED | {"Jump", "Switch", "Offset", "Write", "Read", "Copy", "Call"}


class MemModel:
    """Model of `lir::eval::Memory` (eval.rs): frames of zero-initialised allocations, a table of pointers
    (stack index, frame id, allocation index, offset), every access checked the way `Allocation::read/write` and
    `Memory::read_slice/write` check it (in bounds; offset a multiple of the access size; the frame the pointer was
    made in is still the frame at that stack index) - a failed check is a loud stop. The Kani harnesses
    c20_memory_* decide that the real `Memory` behaves like this; offsets and sizes are constants of the LIR, so
    everything but the byte contents is concrete here."""

    def __init__(self):
        self.id_counter = 1
        self.pointers = []
        self.stack = [{"id": 0, "ret": None, "place": None, "allocs": []}]

    def allocate(self, n):
        fr = self.stack[-1]
        fr["allocs"].append([z3.BitVecVal(0, 8)] * n)
        self.pointers.append((len(self.stack) - 1, fr["id"], len(fr["allocs"]) - 1, 0))
        return len(self.pointers) - 1

    def _ptr(self, p):
        if p >= len(self.pointers):
            raise M.Loud("pointer index out of range")
        return self.pointers[p]

    def offset_by(self, p, off):
        si, sid, ai, o = self._ptr(p)
        self.pointers.append((si, sid, ai, o + off))
        return len(self.pointers) - 1

    def _alloc(self, p, n):
        si, sid, ai, o = self._ptr(p)
        if si >= len(self.stack) or self.stack[si]["id"] != sid:
            raise M.Loud("access through a pointer into a popped frame")
        a = self.stack[si]["allocs"][ai]
        if o + n > len(a):
            raise M.Loud("memory access out of bounds")
        if (n == 0 and o != 0) or (n != 0 and o % n != 0):
            raise M.Loud("memory access is unaligned")
        return a, o

    def write(self, p, bs):
        a, o = self._alloc(p, len(bs))
        a[o:o + len(bs)] = list(bs)

    def read_slice(self, p, n):
        a, o = self._alloc(p, n)
        return a[o:o + n]

    def copy(self, to, frm, n):
        self.write(to, list(self.read_slice(frm, n)))

    def push_frame(self, ret, place):
        self.stack.append({"id": self.id_counter, "ret": ret, "place": place, "allocs": []})
        self.id_counter += 1

    def pop_frame(self):
        if len(self.stack) == 1:
            return None
        return self.stack.pop()


def _varkey(d):
    f = dict(d.fields)
    sc = f["scope"]
    sc = sc.items[0] if isinstance(sc, D) else sc
    k = f["kind"]
    if isinstance(k, D):
        inner = k.items[0]
        if isinstance(inner, D):
            inner = inner.items[0]
        return f"{sc}/{k.name}:{inner}"
    return f"{sc}/{k}"


def _items_of(dump):
    """name -> {blocks: [(label, [instr text])], scope, entry, return_ptr, params: [(name, irtype)], slots: [(varkey, size)]}"""
    items = {}
    order = []
    for name, blocks in dump.get("lir_blocks", {}).items():
        meta = {"blocks": blocks, "params": [], "slots": []}
        for line in dump.get("lir_meta", {}).get(name, []):
            k, v = line.split("=", 1)
            if k == "scope":
                meta["scope"] = parse_debug(v).items[0]
            elif k == "entry":
                meta["entry"] = v
            elif k in ("return_ptr", "context"):
                meta[k] = v == "true"
            elif k == "param":
                ident, ty = v.rsplit(" ", 1)
                meta["params"].append((parse_debug(ident).items[0], ty))
            elif k == "slot":
                size, var = v.split(" ", 1)
                meta["slots"].append((_varkey(parse_debug(var)), int(size)))
        items[name] = meta
        order.append(name)
    return items, order


def eval_path(mirobj, dump, params, arg_terms, overflow_checks, decide, k_loop):
    """One path of the evaluator over the LIR of the whole package, starting at `pkg.main`. Every instruction arm
    (arithmetic, comparisons, Assign, Offset, Write, Read, Copy) is the MIR of the real `eval`; `eval::Memory` is
    MemModel; Jump / Switch / Call / Return and eval's prologue are modelled after eval.rs (flat variable map
    keyed by (scope, kind); a call pushes a frame, allocates the callee's stack slots in it, binds the return
    pointer and the parameters in order and jumps to the entry block; a return pops the frame, stores the value
    in the call's `to` and continues after the call). Wherever the evaluator could stop loudly the path continues
    only on the inputs on which it does not; if there are none the path is cut."""
    items, order = _items_of(dump)
    if "pkg.main" not in items or "scope" not in items["pkg.main"]:
        raise M.Unsupported("no LIR metadata captured for pkg.main")
    main = items["pkg.main"]
    if main.get("return_ptr"):
        raise M.Unsupported("entry function returns through a pointer")
    mem = MemModel()
    vars_ = {}
    for (n, t), term in zip(params, arg_terms):
        vars_[f"{main['scope']}/Explicit:{n}"] = irvalue_of(t, term)
    if [n for n, _ in main["params"]] != [n for n, _ in params]:
        raise M.Unsupported("parameter list of the captured LIR differs from the program's")

    def ptr_value(i):
        return M.EnumV("IrValue", "Pointer", [M.Scalar(z3.BitVecVal(i, 64), "usize")])

    vars_[f"{main['scope']}/Context"] = ptr_value(0)       # what verif_api::eval_main passes as context
    for key, size in main["slots"]:
        vars_[key] = ptr_value(mem.allocate(size))
    label_pos = {}
    for name in order:
        for bi, (label, _) in enumerate(items[name]["blocks"]):
            label_pos[label] = (name, bi)
    cur, bi, ii = "pkg.main", label_pos[main["entry"]][1], 0
    visits = {}

    def operand(v):
        if v.name == "Place":
            key = _varkey(v.items[0])
            if key not in vars_:
                raise M.Unsupported(f"read of unknown variable {key}")
            return vars_[key]
        return lit_irvalue(v.items[0])

    def goto(label):
        nonlocal cur, bi, ii
        cur, bi = label_pos[label]
        ii = 0
        visits[label] = visits.get(label, 0) + 1
        if visits[label] > 4 * k_loop + 4:
            raise PathCut("evaluator loop bound")

    steps = 0
    while True:
        steps += 1
        if steps > 4000:
            raise PathCut("evaluator step bound")
        blocks = items[cur]["blocks"]
        if ii >= len(blocks[bi][1]):
            # the evaluator's instruction list is flat: a block without terminator continues in the next one
            if bi + 1 >= len(blocks):
                raise M.Unsupported("control falls off the end of an item")
            bi, ii = bi + 1, 0
            continue
        d = parse_debug(blocks[bi][1][ii])
        if d.name not in CF_SUPPORTED:
            raise M.Unsupported(f"LIR instruction {d.name}")
        if d.name == "Jump":
            goto(f"{d.items[0].name}({d.items[0].items[0]})")
            continue
        if d.name == "Return":
            inner = d.items[0]
            val = operand(inner.items[0]) if isinstance(inner, D) and inner.name == "Some" else None
            fr = mem.pop_frame()
            if fr is None:
                if val is None:
                    raise M.Unsupported("Return(None) from the entry function")
                return val
            if val is not None:
                if fr["place"] is None:
                    raise M.Loud("return value without a return place")    # `return_place.unwrap()`
                vars_[fr["place"]] = val
            cur, bi, ii = fr["ret"]
            continue
        if d.name == "Call":
            f = dict(d.fields)
            callee = f["func"].items[0]
            if callee not in items or "scope" not in items[callee]:
                raise M.Unsupported(f"call of {callee}: no LIR captured")
            cx = f["ctx"]
            ctx_val = operand(cx.items[0]) if isinstance(cx, D) and cx.name == "Some" else None
            ci = items[callee]
            to = f["to"]
            place = _varkey(to.items[0].items[0]) if isinstance(to, D) and to.name == "Some" else None
            mem.push_frame((cur, bi, ii + 1), place)
            for key, size in ci["slots"]:
                vars_[key] = ptr_value(mem.allocate(size))
            rp = f["return_ptr"]
            if isinstance(rp, D) and rp.name == "Some":
                key = _varkey(rp.items[0])
                if key not in vars_:
                    raise M.Unsupported(f"read of unknown variable {key}")
                vars_[f"{ci['scope']}/Return"] = vars_[key]
            if ctx_val is not None:
                vars_[f"{ci['scope']}/Context"] = ctx_val
            for (pn, _), a in zip(ci["params"], f["args"].items):
                vars_[f"{ci['scope']}/Explicit:{pn}"] = operand(a)
            if len(mem.stack) > 12:
                raise PathCut("evaluator call depth bound")
            goto(ci["entry"])
            continue
        if d.name == "Switch":
            f = dict(d.fields)
            ex = operand(f["examinee"])
            it = M.Interp(mirobj, overflow_checks, {})
            f2 = mirobj.fn(r"lir::value::<impl at src/lir/value\.rs:[\d: ]+>::switch_on$")
            try:
                x = it.run(f2, "bb0", M._Env({f2["params"][0]: M.Ref(lambda ex=ex: ex)}), 1)
            except M.Loud:
                raise PathCut("loud")
            x64 = z3.ZeroExt(32, x.t)
            target = None
            for entry in f["branches"].items:
                idx, lab = entry.items
                if decide(z3.simplify(x64 == z3.BitVecVal(int(idx), 64)), f"switch {idx}"):
                    target = lab
                    break
            if target is None:
                target = f["default"]
            goto(f"{target.name}({target.items[0]})")
            continue
        fields, operand_values = [], []
        for k, v in d.fields:
            if isinstance(v, D) and v.name in ("Place", "Value"):
                val = operand(v)
                o = M.EnumV("Operand", v.name, [M.Opaque("inner")])
                operand_values.append((o, val))
                fields.append(o)
            elif k == "cmp":
                fields.append(M.EnumV("IntCmp" if d.name == "IntCmp" else "FloatCmp", v, []))
            elif k == "signed":
                fields.append(M.Scalar(z3.BoolVal(v == "true"), "bool"))
            elif k == "ty" and d.name == "Read":
                fields.append(M.EnumV("IrType", v, []))
            elif k in ("offset", "size") and d.name in ("Offset", "Copy"):
                fields.append(M.Scalar(z3.BitVecVal(int(v), 32), "u32"))
            else:
                fields.append(M.Opaque(k))
        try:
            st, val, lc = M.run_instruction(mirobj, d.name, fields, operand_values, overflow_checks, mem, lambda c, why: decide(z3.simplify(c), why))
        except M.Loud:
            raise PathCut("loud")
        for _, c in lc:
            if not decide(z3.Not(c), "not-loud", force=True):
                raise PathCut("loud")
        if st == "loud":
            raise PathCut("loud")
        if st == "value":
            vars_[_varkey(dict(d.fields)["to"])] = val
        ii += 1


def modelled_arms_guard(mirobj):
    """Jump / Switch / Call / Return are modelled by hand after eval.rs (their MIR is iterator and hash-map plumbing). The model
    was written for one code shape: the multiset of callees on the normal paths of each of those arms is compared with the one
    recorded in tv/modelled_arms.json; if an arm now calls something else (a binary search instead of `find_map`, another
    frame operation, ..) the model no longer speaks for the code and nothing that runs through that arm is decided."""
    if getattr(mirobj, "_arms_guard", None) is not None:
        return mirobj._arms_guard
    want = json.load(open(os.path.join(os.path.dirname(os.path.abspath(__file__)), "modelled_arms.json")))
    bad = {}
    for v, callees in want.items():
        try:
            got = M.arm_callees(mirobj, v)
        except M.Unsupported as e:
            bad[v] = str(e)
            continue
        if got != callees:
            diff = sorted(set(got) ^ set(callees)) or ["same callees, different multiplicity"]
            bad[v] = "calls differ: " + "; ".join(diff)[:300]
    mirobj._arms_guard = bad
    return bad


def check_program_cf(mirobj, prog, dump, k_loop=3, timeout_ms=20000):
    """control-flow version: path-wise on both sides (evaluator paths x CLIF paths)"""
    out = {"status": "ok", "queries": 0, "finding": None, "reason": "", "profiles": {}}
    entry = [f for f in prog.fns if f.name == prog.entry][0]
    blocks = dump.get("lir_blocks", {}).get("pkg.main")
    if blocks is None:
        out["status"], out["reason"] = "unsupported", "no LIR captured"
        return out
    # instruction kinds that are outside engine M by design are recognised before anything is explored
    for name, bl in dump.get("lir_blocks", {}).items():
        for _, ins in bl:
            for text in ins:
                k = re.match(r"\w+", text).group(0)
                if k not in CF_SUPPORTED:
                    out["status"], out["reason"] = "unsupported", f"mir: LIR instruction {k}"
                    return out
    bad_arms = modelled_arms_guard(mirobj)
    used = {re.match(r"\w+", text).group(0) for bl in dump.get("lir_blocks", {}).values() for _, ins in bl for text in ins}
    for v in sorted(set(bad_arms) & used):
        out["status"], out["reason"] = "unsupported", f"mir: the arm of Instruction::{v} in eval is no longer the code its model was written for ({bad_arms[v]})"
        return out
    if any(l == "return_ptr=true" for l in dump.get("lir_meta", {}).get("pkg.main", [])) or any(t not in TAG_OF for _, t in entry.params):
        out["status"], out["reason"] = "unsupported", "mir: entry function takes or returns a non-scalar"
        return out
    ref_args, cons = [], []
    for (n, t) in entry.params:
        v, c = lang.sym_value(t, f"arg_{n}")
        ref_args.append(v)
        cons += c
    world = World(dump, tv.host_models())

    def run_clif(decide):
        path = Path(world, decide, k_loop, 2)
        path.ledger = tv.Ledger()
        path.lists = {"stores": [], "handles": {}, "next": 5000}
        path.strings = {}
        args = [z3.BitVecVal(0, 64)] + [tv.scalar_to_clif(t, v) for (n, t), v in zip(entry.params, ref_args)]
        try:
            return path, path.call("pkg.main", args)
        except PathCut as e:
            e.path = path
            raise
    try:
        ex = Explorer(cons, 48, timeout_ms)
        cpaths = ex.explore(run_clif)
        out["queries"] += ex.queries
    except clif.Unsupported as e:
        out["status"], out["reason"] = "unsupported", "clif: " + str(e)
        return out
    for ovf in (True, False):
        prof = "overflow-checks=" + ("on" if ovf else "off")
        try:
            ex2 = Explorer(cons, 48, timeout_ms)
            epaths = ex2.explore(lambda decide: eval_path(mirobj, dump, entry.params, ref_args, ovf, decide, k_loop))
            out["queries"] += ex2.queries
        except M.Unsupported as e:
            out["status"], out["reason"] = "unsupported", "mir: " + str(e)
            return out
        except clif.Unsupported as e:
            out["status"], out["reason"] = "unsupported", "explorer: " + str(e)
            return out
        compared = 0
        for econds, eres in epaths:
            if isinstance(eres, PathCut):
                continue
            evt = eres.fields[0]
            tag_ty = RUST_TY[eres.variant]
            for cconds, cres in cpaths:
                if isinstance(cres, PathCut):
                    if str(cres) != "trap":
                        continue
                    # the compiled code traps on inputs where the evaluator completes
                    sv = z3.Solver()
                    sv.set("timeout", timeout_ms)
                    sv.add(cons + econds + cconds)
                    out["queries"] += 1
                    if sv.check() == z3.sat:
                        m = sv.model()
                        out["finding"] = {"profile": prof, "kind": "compiled code traps where the evaluator completes",
                                          "args": [tv.bits_of(m, t, v) for (n, t), v in zip(entry.params, ref_args)]}
                        return out
                    continue
                path, rv = cres
                if tag_ty == "bool":
                    diff = rv != z3.If(evt.t, z3.BitVecVal(1, 8), z3.BitVecVal(0, 8))
                elif tag_ty in ("f32", "f64"):
                    diff = z3.Not(rv == evt.t)
                else:
                    diff = rv != evt.t
                diff = z3.simplify(diff)
                compared += 1
                if z3.is_false(diff):
                    continue
                sv = z3.Solver()
                sv.set("timeout", timeout_ms)
                sv.add(cons + econds + cconds + [diff])
                out["queries"] += 1
                r = sv.check()
                if r == z3.sat:
                    m = sv.model()
                    out["finding"] = {"profile": prof, "args": [tv.bits_of(m, t, v) for (n, t), v in zip(entry.params, ref_args)],
                                      "evaluator_value": str(m.eval(evt.t, model_completion=True)), "compiled_value": str(m.eval(rv, model_completion=True))}
                    return out
                if r == z3.unknown:
                    out["status"], out["reason"] = "unsupported", "solver timeout"
                    return out
        done = len([1 for _, r in epaths if not isinstance(r, PathCut)])
        out.setdefault("completing_paths", {})["on" if ovf else "off"] = done
        out["profiles"][prof.replace("-", "_").replace("=", "_")] = f"{done} evaluator path(s) x {len(cpaths)} compiled path(s), {compared} pairs compared: agree wherever the evaluator does not stop loudly"
    return out


def check_program(mirobj, prog, dump, timeout_ms=20000):
    """returns dict: status ok|unsupported|loud_only, queries, finding (model) or None"""
    out = {"status": "ok", "queries": 0, "finding": None, "reason": "", "profiles": {}}
    entry = [f for f in prog.fns if f.name == prog.entry][0]
    lir = dump["lir"].get("pkg.main")
    if lir is None:
        out["status"], out["reason"] = "unsupported", "no LIR captured"
        return out
    ref_args, cons = [], []
    for (n, t) in entry.params:
        v, c = lang.sym_value(t, f"arg_{n}")
        ref_args.append(v)
        cons += c
    # JIT side: the emitted CLIF (engine T encoding), must be a single completed path per feasible region
    world = World(dump, tv.host_models())

    def run_clif(decide):
        path = Path(world, decide, 2, 2)
        path.ledger = tv.Ledger()
        path.lists = {"stores": [], "handles": {}, "next": 5000}
        path.strings = {}
        args = [z3.BitVecVal(0, 64)] + [tv.scalar_to_clif(t, v) for (n, t), v in zip(entry.params, ref_args)]
        return path, path.call("pkg.main", args)
    ex = Explorer(cons, 8, timeout_ms)
    try:
        cpaths = ex.explore(run_clif)
    except clif.Unsupported as e:
        out["status"], out["reason"] = "unsupported", "clif: " + str(e)
        return out
    out["queries"] += ex.queries
    for ovf in (True, False):
        try:
            ev, loud = eval_side(mirobj, lir, entry.params, ref_args, ovf)
        except M.Unsupported as e:
            out["status"], out["reason"] = "unsupported", "mir: " + str(e)
            return out
        if ev is None:
            out["profiles"]["overflow_checks_on" if ovf else "overflow_checks_off"] = "evaluator stops loudly on every input"
            continue
        s = z3.Solver()
        s.set("timeout", timeout_ms)
        for c in cons:
            s.add(c)
        for c in loud:
            s.add(z3.Not(c))
        evt = ev.fields[0]
        for conds, res in cpaths:
            if isinstance(res, PathCut):
                continue      # trapping inputs of the compiled code: excluded there, the evaluator must be loud on them (checked below)
            path, rv = res
            tag_ty = RUST_TY[ev.variant]
            if tag_ty == "bool":
                diff = rv != z3.If(evt.t, z3.BitVecVal(1, 8), z3.BitVecVal(0, 8))
            elif tag_ty in ("f32", "f64"):
                diff = z3.Not(rv == evt.t)
            else:
                diff = rv != evt.t
            s.push()
            for c in conds:
                s.add(c)
            s.add(diff)
            out["queries"] += 1
            r = s.check()
            if r == z3.sat:
                m = s.model()
                out["finding"] = {"profile": "overflow-checks=" + ("on" if ovf else "off"),
                                  "args": [tv.bits_of(m, t, v) for (n, t), v in zip(entry.params, ref_args)],
                                  "evaluator_value": str(m.eval(evt.t, model_completion=True)), "compiled_value": str(m.eval(rv, model_completion=True))}
                s.pop()
                return out
            if r == z3.unknown:
                out["status"], out["reason"] = "unsupported", "solver timeout"
                s.pop()
                return out
            s.pop()
        # inputs on which the compiled code traps must be loud stops of the evaluator
        trap_conds = []
        for conds, res in cpaths:
            pth = res[0] if not isinstance(res, PathCut) else getattr(res, "path", None)
            for (tc, desc, pre) in (pth.trap_log if pth is not None else []):
                trap_conds.append(z3.And(list(pre) + [tc]))
        if trap_conds:
            s.push()
            s.add(z3.Or(trap_conds))
            out["queries"] += 1
            if s.check() == z3.sat:
                m = s.model()
                out["finding"] = {"profile": "overflow-checks=" + ("on" if ovf else "off"), "kind": "compiled code traps where the evaluator completes",
                                  "args": [tv.bits_of(m, t, v) for (n, t), v in zip(entry.params, ref_args)]}
                s.pop()
                return out
            s.pop()
        out["profiles"]["overflow_checks_on" if ovf else "overflow_checks_off"] = f"agrees wherever not loud ({len(loud)} loud-stop conditions)"
    return out


if __name__ == "__main__":
    import gen, tvrun
    repo = os.environ.get("VERIF_REPO", "/repo")
    mirobj = M.Mir(open(sys.argv[1]).read(), repo)
    progs = [p for p in gen.f1_cells() if True]
    import shutil
    shutil.rmtree(tvrun.WORK, ignore_errors=True)
    os.makedirs(os.path.join(tvrun.WORK, "src")); os.makedirs(os.path.join(tvrun.WORK, "dump"))
    paths = []
    for p in progs:
        f = os.path.join(tvrun.WORK, "src", p.meta["name"] + ".roto")
        open(f, "w").write(lang.program_src(p)); paths.append(f)
    tv.dump_programs(paths, os.path.join(tvrun.WORK, "dump"))
    from collections import Counter
    cnt = Counter()
    for p in progs:
        d = json.load(open(os.path.join(tvrun.WORK, "dump", p.meta["name"] + ".json")))
        o = check_program(mirobj, p, d)
        cnt[o["status"]] += 1
        if o["status"] != "ok" or o["finding"]:
            print(p.meta["name"], o["status"], o["reason"][:200], o["finding"])
    print(cnt)
