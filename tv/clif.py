"""CLIF (cranelift IR text) -> z3: parser and path-wise symbolic executor (engine T of DESIGN.md).

The text is what the real compiler in /repo emitted for a script (hook H2). Execution is path-wise with a
*decision oracle*: the executor is deterministic given a sequence of branch decisions; `explore()` enumerates
the feasible decision sequences with an incremental z3 solver. Arguments are symbolic.

Memory is a set of regions (stack slots, by-pointer argument objects, the return slot, data blobs, constants)
addressed by (region, constant offset) - generated code only ever adds constants to the addresses it gets -
each region a byte array of z3 BV8 terms (None = never written).

Anything outside the supported subset raises Unsupported (the program is then counted as unsupported and never
compared)."""
import re
import z3


class Unsupported(Exception):
    pass


class PathCut(Exception):
    """the loop/inlining bound was hit on this path"""


class Ptr:
    __slots__ = ("region", "off")

    def __init__(self, region, off=0):
        self.region, self.off = region, off

    def __repr__(self):
        return f"&{self.region}+{self.off}"


class FuncAddr:
    """address of an item of the same module (func_addr): only ever stored into vtables and called by models"""
    __slots__ = ("name",)

    def __init__(self, name):
        self.name = name

    def __repr__(self):
        return f"&fn {self.name}"


def is_marker(v):
    return isinstance(v, (Ptr, FuncAddr))


class Byte:
    """byte i (little endian) of an n-byte value that was stored as a whole; keeps loads of whole values syntactically
    equal to what was stored (no Extract/Concat round trip for the solver to undo)"""
    __slots__ = ("term", "i", "n")

    def __init__(self, term, i, n):
        self.term, self.i, self.n = term, i, n


def byte_term(e):
    if isinstance(e, Byte):
        t = z3.fpToIEEEBV(e.term) if z3.is_fp(e.term) else e.term
        return z3.simplify(z3.Extract(8 * e.i + 7, 8 * e.i, t)) if e.n > 1 else t
    return e


class Inst:
    __slots__ = ("res", "op", "ty", "args", "raw")

    def __init__(self, res, op, ty, args, raw):
        self.res, self.op, self.ty, self.args, self.raw = res, op, ty, args, raw


class Func:
    def __init__(self, name):
        self.name = name
        self.params = []       # types
        self.rets = []
        self.slots = {}        # ss -> (size, align)
        self.sigs = {}         # sigN -> (params, rets)
        self.fns = {}          # fnN -> ("u", ns, idx) | ("lib", name)
        self.gvs = {}          # gvN -> userextname index
        self.userext = {}      # index -> (ns, idx)
        self.blocks = {}       # name -> (params[(v,ty)], [Inst])
        self.order = []
        self.alias = {}


TY_BITS = {"i8": 8, "i16": 16, "i32": 32, "i64": 64, "f32": 32, "f64": 64}


def _split_args(s):
    out, depth, cur = [], 0, ""
    for ch in s:
        if ch in "([":
            depth += 1
        elif ch in ")]":
            depth -= 1
        if ch == "," and depth == 0:
            out.append(cur.strip())
            cur = ""
        else:
            cur += ch
    if cur.strip():
        out.append(cur.strip())
    return out


def parse_function(name, text):
    f = Func(name)
    cur = None
    for raw in text.split("\n"):
        line = raw.split(";")[0].rstrip() if not raw.startswith(";;") else raw
        if raw.startswith(";;"):
            m = re.match(r";; userextname(\d+) = u(\d+):(\d+)", raw)
            if m:
                f.userext[int(m.group(1))] = (int(m.group(2)), int(m.group(3)))
            continue
        s = line.strip()
        if not s or s == "}":
            continue
        m = re.match(r"function \S+\((.*?)\)(?: -> (.*?))? (\w+) \{", s)
        if m:
            f.params = [x.strip() for x in m.group(1).split(",") if x.strip()]
            f.rets = [x.strip() for x in (m.group(2) or "").split(",") if x.strip()]
            continue
        m = re.match(r"(ss\d+) = explicit_slot (\d+)(?:, align = (\d+))?", s)
        if m:
            f.slots[m.group(1)] = (int(m.group(2)), int(m.group(3) or 1))
            continue
        m = re.match(r"(sig\d+) = \((.*?)\)(?: -> (\S+))? \w+", s)
        if m:
            f.sigs[m.group(1)] = ([x.strip() for x in m.group(2).split(",") if x.strip()], m.group(3))
            continue
        m = re.match(r"(fn\d+) = (?:colocated )?u(\d+):(\d+) (sig\d+)", s)
        if m:
            f.fns[m.group(1)] = ("u", int(m.group(2)), int(m.group(3)), m.group(4))
            continue
        m = re.match(r"(fn\d+) = (?:colocated )?%(\w+) (sig\d+)", s)
        if m:
            f.fns[m.group(1)] = ("lib", m.group(2), None, m.group(3))
            continue
        m = re.match(r"(gv\d+) = symbol (?:colocated )?userextname(\d+)", s)
        if m:
            f.gvs[m.group(1)] = int(m.group(2))
            continue
        m = re.match(r"(block\d+)(?:\((.*)\))?:", s)
        if m:
            params = []
            if m.group(2):
                for p in m.group(2).split(","):
                    v, t = p.strip().split(":")
                    params.append((v.strip(), t.strip()))
            cur = m.group(1)
            f.blocks[cur] = (params, [])
            f.order.append(cur)
            continue
        m = re.match(r"(v\d+) -> (v\d+)", s)
        if m:
            f.alias[m.group(1)] = m.group(2)
            continue
        if cur is None:
            raise Unsupported(f"unparsed header line: {s}")
        res = None
        m = re.match(r"(v\d+) = (.*)", s)
        if m:
            res, s = m.group(1), m.group(2)
        m = re.match(r"([a-z_0-9]+)(?:\.([a-z0-9]+))?\s*(.*)", s)
        op, ty, rest = m.group(1), m.group(2), m.group(3)
        f.blocks[cur][1].append(Inst(res, op, ty, rest, raw.strip()))
    return f


def parse_hexfloat(s, bits):
    s = s.strip()
    sort = z3.Float32() if bits == 32 else z3.Float64()
    if s in ("+Inf", "Inf"):
        return z3.fpPlusInfinity(sort)
    if s == "-Inf":
        return z3.fpMinusInfinity(sort)
    if "NaN" in s:
        return z3.fpNaN(sort)
    v = float.fromhex(s) if ("x" in s or "X" in s) else float(s)
    import struct
    if bits == 32:
        b = struct.unpack("<I", struct.pack("<f", v))[0]
    else:
        b = struct.unpack("<Q", struct.pack("<d", v))[0]
    return z3.fpBVToFP(z3.BitVecVal(b, bits), sort)


def parse_int(s):
    s = s.strip().replace("_", "")
    return int(s, 16) if s.lower().startswith(("0x", "-0x")) else int(s)


ICMP = {
    "eq": lambda a, b: a == b, "ne": lambda a, b: a != b,
    "slt": lambda a, b: a < b, "sle": lambda a, b: a <= b, "sgt": lambda a, b: a > b, "sge": lambda a, b: a >= b,
    "ult": z3.ULT, "ule": z3.ULE, "ugt": z3.UGT, "uge": z3.UGE,
}
def _uno(a, b):
    return z3.Or(z3.fpIsNaN(a), z3.fpIsNaN(b))


# every cranelift FloatCC (IEEE-754 comparison; the u* codes are "unordered or ...")
FCMP = {
    "eq": z3.fpEQ, "ne": lambda a, b: z3.Not(z3.fpEQ(a, b)), "lt": z3.fpLT, "le": z3.fpLEQ, "gt": z3.fpGT, "ge": z3.fpGEQ,
    "ord": lambda a, b: z3.Not(_uno(a, b)), "uno": _uno,
    "one": lambda a, b: z3.And(z3.Not(_uno(a, b)), z3.Not(z3.fpEQ(a, b))),
    "ueq": lambda a, b: z3.Or(_uno(a, b), z3.fpEQ(a, b)),
    "ult": lambda a, b: z3.Or(_uno(a, b), z3.fpLT(a, b)), "ule": lambda a, b: z3.Or(_uno(a, b), z3.fpLEQ(a, b)),
    "ugt": lambda a, b: z3.Or(_uno(a, b), z3.fpGT(a, b)), "uge": lambda a, b: z3.Or(_uno(a, b), z3.fpGEQ(a, b)),
}
RNE = z3.RNE()


def b2i8(c):
    return z3.If(c, z3.BitVecVal(1, 8), z3.BitVecVal(0, 8))


def is_true(t):
    return z3.is_true(z3.simplify(t))


class Event:
    """a host-visible action on a path"""

    def __init__(self, kind, name, args):
        self.kind, self.name, self.args = kind, name, args

    def __repr__(self):
        return f"{self.kind}:{self.name}{self.args}"


# runtime function id of `to_string` -> roto type, discovered per run by compiling a probe script (tv_engine.build)
TO_STRING_TYPES = {}


class World:
    """Everything the executor needs about one compiled script."""

    def __init__(self, dump, host_models):
        self.funcs = {}
        for it in dump["items"]:
            self.funcs[it["name"]] = parse_function(it["name"], it["clif"])
        self.data = {int(k): bytes.fromhex(v) for k, v in dump["data"].items()}
        self.func_ids = {}
        self.tramp = {}
        self.addr = {}
        self.roto_consts = {}
        for a, kind, desc in dump["symbols"]:
            if kind == "func_id":
                self.func_ids[a] = desc
            elif kind == "trampoline_func_id":
                nm, fid = desc.split("#")
                if nm == "to_string":
                    nm = "to_string:" + TO_STRING_TYPES.get(int(fid), "?")
                self.tramp[a] = nm
            elif kind in ("clone", "drop", "eq", "init_string"):
                self.addr[a] = (kind, desc)
            elif kind == "roto_constant":
                nm, size = desc.rsplit(":", 1)
                self.roto_consts[a] = (nm, int(size))
        # registered constants: address -> (name, bytes as the runtime stores them), captured by hook H2
        self.consts = {}
        for a, name, hexbytes in dump.get("constants", []):
            self.consts[a] = (name, bytes.fromhex(hexbytes))
        self.host = host_models


class Path:
    """State of one execution path."""

    def __init__(self, world, decide, k_loop, depth):
        self.w = world
        self.decide = decide            # callable(z3 Bool, what) -> bool
        self.k_loop, self.max_depth = k_loop, depth
        self.mem = {}                   # region -> list of byte terms / None
        self.events = []                # Event list (host calls, clones, drops, ...)
        self.trap_log = []              # (z3 cond under which the op traps, description, path condition when reached)
        self.fresh = 0
        self.undef_reads = 0
        self.nregion = 0
        self.ledger_notes = []

    # ---- memory
    def new_region(self, prefix, size, init=None):
        self.nregion += 1
        name = f"{prefix}#{self.nregion}"
        self.mem[name] = list(init) if init is not None else [None] * size
        return name

    def load(self, ptr, nbytes, as_float=False):
        """as_float: the caller wants a float and accepts the stored FP term itself if a float of this width was stored"""
        if not isinstance(ptr, Ptr):
            raise Unsupported("load through a non-region address")
        r = self.mem[ptr.region]
        if ptr.off < 0 or ptr.off + nbytes > len(r):
            raise Unsupported(f"load out of region bounds {ptr} size {nbytes} region {len(r)}")
        ents = []
        for i in range(nbytes):
            b = r[ptr.off + i]
            if b is None:
                self.fresh += 1
                self.undef_reads += 1
                b = z3.BitVec(f"undef!{self.fresh}", 8)
                r[ptr.off + i] = b
            ents.append(b)
        if is_marker(ents[0]):
            # a stored pointer / function address (8 bytes share the same marker object)
            if nbytes != 8 or any(b is not ents[0] for b in ents):
                raise Unsupported("partial pointer load")
            return ents[0]
        if any(is_marker(b) for b in ents):
            raise Unsupported("partial pointer load")
        e0 = ents[0]
        if isinstance(e0, Byte) and e0.i == 0 and e0.n == nbytes and all(isinstance(b, Byte) and b.term is e0.term and b.i == k for k, b in enumerate(ents)):
            if z3.is_fp(e0.term) and not as_float:
                return z3.fpToIEEEBV(e0.term)
            return e0.term
        if isinstance(e0, Byte) and all(isinstance(b, Byte) and b.term is e0.term and b.i == e0.i + k for k, b in enumerate(ents)):
            # a contiguous part of one stored value: a single Extract (which z3 folds through the Concat that built it)
            t = z3.fpToIEEEBV(e0.term) if z3.is_fp(e0.term) else e0.term
            return z3.simplify(z3.Extract(8 * (e0.i + nbytes) - 1, 8 * e0.i, t))
        # group consecutive bytes of the same stored value into one Extract each
        parts, k = [], 0
        while k < nbytes:
            b = ents[k]
            if isinstance(b, Byte):
                j = k
                while j + 1 < nbytes and isinstance(ents[j + 1], Byte) and ents[j + 1].term is b.term and ents[j + 1].i == ents[j].i + 1:
                    j += 1
                t = z3.fpToIEEEBV(b.term) if z3.is_fp(b.term) else b.term
                parts.append(z3.Extract(8 * (ents[j].i + 1) - 1, 8 * b.i, t) if (j - k + 1) * 8 != t.size() else t)
                k = j + 1
            else:
                parts.append(b)
                k += 1
        return z3.simplify(z3.Concat(*reversed(parts))) if len(parts) > 1 else z3.simplify(parts[0])

    def peek(self, ptr, nbytes):
        """value at ptr if every byte has been written with data (no side effect), else None"""
        r = self.mem.get(ptr.region)
        if r is None or ptr.off < 0 or ptr.off + nbytes > len(r):
            return None
        ents = r[ptr.off:ptr.off + nbytes]
        if any(b is None or is_marker(b) for b in ents):
            return None
        return self.load(ptr, nbytes)

    def store(self, ptr, val, nbytes):
        if not isinstance(ptr, Ptr):
            raise Unsupported("store through a non-region address")
        r = self.mem[ptr.region]
        if ptr.off < 0 or ptr.off + nbytes > len(r):
            raise Unsupported(f"store out of region bounds {ptr} size {nbytes} region {len(r)}")
        if is_marker(val):
            if nbytes != 8:
                raise Unsupported("pointer stored with width != 8")
            for i in range(8):
                r[ptr.off + i] = val
            return
        if not z3.is_fp(val):
            val = z3.simplify(val)
        for i in range(nbytes):
            r[ptr.off + i] = Byte(val, i, nbytes)

    def read_bytes(self, ptr, n):
        return [self.load(Ptr(ptr.region, ptr.off + i), 1) for i in range(n)]

    def copy(self, dst, src, n):
        if not isinstance(dst, Ptr) or not isinstance(src, Ptr):
            raise Unsupported("memcpy through non-region address")
        s, d = self.mem[src.region], self.mem[dst.region]
        if src.off + n > len(s) or dst.off + n > len(d):
            raise Unsupported("memcpy out of region bounds")
        chunk = s[src.off:src.off + n]
        d[dst.off:dst.off + n] = chunk

    # ---- execution
    def call(self, fname, args, depth=0, machine_abi=False):
        """machine_abi: the caller is Rust code that passes `args` by position in registers (the entry call of a
        compiled function): parameter k of the callee receives machine argument k, whatever the callee's own idea
        of its parameter list is; a parameter without a machine argument, or one that receives a pointer where it
        expects a scalar, reads an arbitrary value."""
        if depth > self.max_depth:
            raise PathCut(f"inlining depth {depth}")
        f = self.w.funcs.get(fname)
        if f is None:
            raise Unsupported(f"call to unknown item {fname}")
        env = {}
        slots = {s: self.new_region(f"{fname}.{s}", sz) for s, (sz, al) in f.slots.items()}
        visits = {}
        blk = f.order[0]
        bargs = list(args)

        def val(v):
            v = v.strip()
            seen = 0
            while v in f.alias and v not in env:
                v = f.alias[v]
                seen += 1
                if seen > 100:
                    raise Unsupported("alias cycle")
            if v not in env:
                raise Unsupported(f"use of undefined value {v} in {fname}")
            return env[v]

        def target(t):
            m = re.match(r"(block\d+)(?:\((.*)\))?$", t.strip())
            return m.group(1), [val(x) for x in _split_args(m.group(2))] if m.group(2) else []

        def addr(a):
            m = re.match(r"(v\d+)(?:\+(\d+))?$", a.strip())
            p = val(m.group(1))
            if m.group(2):
                if not isinstance(p, Ptr):
                    raise Unsupported("offset access through non-region address")
                p = Ptr(p.region, p.off + int(m.group(2)))
            return p

        while True:
            visits[blk] = visits.get(blk, 0) + 1
            if visits[blk] > 4 * self.k_loop + 4:
                raise PathCut(f"block {blk} of {fname} visited {visits[blk]} times")
            params, insts = f.blocks[blk]
            if machine_abi and blk == f.order[0] and len(visits) == 1 and visits[blk] == 1:
                fixed = []
                for k, (pv, pt) in enumerate(params):
                    a = bargs[k] if k < len(bargs) else None
                    bits = TY_BITS.get(pt)
                    if a is None or (isinstance(a, Ptr) and bits != 64) or (z3.is_bv(a) and bits is not None and a.size() != bits and not isinstance(a, Ptr)):
                        if bits is None:
                            raise Unsupported("machine argument for a non-integer parameter")
                        if a is not None and z3.is_bv(a) and a.size() > bits:
                            a = z3.Extract(bits - 1, 0, a)
                        else:
                            self.fresh = getattr(self, "fresh", 0) + 1
                            a = z3.BitVec(f"register_garbage_{self.fresh}", bits)
                    fixed.append(a)
                bargs = fixed
            if len(params) != len(bargs):
                raise Unsupported("block argument count mismatch")
            for (pv, pt), a in zip(params, bargs):
                env[pv] = a
            jumped = False
            for ins in insts:
                op, ty, rest = ins.op, ins.ty, ins.args
                if op == "iconst":
                    c = parse_int(rest)
                    if ty == "i64" and (c & 0xFFFFFFFFFFFFFFFF) in self.w.consts:
                        name, data = self.w.consts[c & 0xFFFFFFFFFFFFFFFF]
                        key = f"const:{name}"
                        if key not in self.mem:
                            self.mem[key] = [z3.BitVecVal(b, 8) for b in data]
                        env[ins.res] = Ptr(key, 0)
                    else:
                        env[ins.res] = z3.BitVecVal(c, TY_BITS[ty])
                elif op in ("f32const", "f64const"):
                    env[ins.res] = parse_hexfloat(rest, 32 if op == "f32const" else 64)
                elif op in ("iadd", "isub", "imul", "sdiv", "udiv", "srem", "urem", "band", "bor", "bxor"):
                    a, b = [val(x) for x in _split_args(rest)]
                    if is_marker(a) or is_marker(b):
                        if op == "iadd" and isinstance(a, Ptr) and not is_marker(b) and z3.is_bv_value(z3.simplify(b)):
                            env[ins.res] = Ptr(a.region, a.off + z3.simplify(b).as_signed_long())
                            continue
                        raise Unsupported("pointer arithmetic")
                    if op == "iadd":
                        r = a + b
                    elif op == "isub":
                        r = a - b
                    elif op == "imul":
                        r = a * b
                    elif op == "band":
                        r = a & b
                    elif op == "bor":
                        r = a | b
                    elif op == "bxor":
                        r = a ^ b
                    else:
                        w = a.size()
                        zero = b == z3.BitVecVal(0, w)
                        trap = zero
                        if op == "sdiv":
                            # cranelift sdiv traps on INT_MIN / -1 as well
                            trap = z3.Or(zero, z3.And(a == z3.BitVecVal(1 << (w - 1), w), b == z3.BitVecVal(-1, w)))
                        self.trap_log.append((z3.simplify(trap), f"{op}.i{w} in {fname}: {ins.raw}",
                                              list(getattr(self.decide, "conds", []))))
                        # continue on the non-trapping inputs only
                        if not self.decide(z3.Not(trap), "no-trap", force=True):
                            raise PathCut("trap")
                        r = {"sdiv": lambda: a / b, "udiv": lambda: z3.UDiv(a, b), "srem": lambda: z3.SRem(a, b),
                             "urem": lambda: z3.URem(a, b)}[op]()
                    env[ins.res] = z3.simplify(r)
                elif op == "ineg":
                    env[ins.res] = z3.simplify(-val(rest))
                elif op == "bnot":
                    env[ins.res] = z3.simplify(~val(rest))
                elif op == "iadd_imm":
                    a, imm = _split_args(rest)
                    a = val(a)
                    imm = parse_int(imm)
                    env[ins.res] = Ptr(a.region, a.off + imm) if isinstance(a, Ptr) else z3.simplify(a + z3.BitVecVal(imm, a.size()))
                elif op == "icmp":
                    cc, rest2 = rest.split(None, 1)
                    a, b = [val(x) for x in _split_args(rest2)]
                    if isinstance(a, Ptr) or isinstance(b, Ptr):
                        raise Unsupported("pointer comparison")
                    env[ins.res] = z3.simplify(b2i8(ICMP[cc](a, b)))
                elif op == "icmp_imm":
                    cc, rest2 = rest.split(None, 1)
                    a, imm = _split_args(rest2)
                    a = val(a)
                    if isinstance(a, Ptr):
                        raise Unsupported("pointer comparison")
                    env[ins.res] = z3.simplify(b2i8(ICMP[cc](a, z3.BitVecVal(parse_int(imm), a.size()))))
                elif op == "uextend":
                    a = val(rest)
                    env[ins.res] = z3.simplify(z3.ZeroExt(TY_BITS[ty] - a.size(), a))
                elif op == "sextend":
                    a = val(rest)
                    env[ins.res] = z3.simplify(z3.SignExt(TY_BITS[ty] - a.size(), a))
                elif op == "ireduce":
                    a = val(rest)
                    env[ins.res] = z3.simplify(z3.Extract(TY_BITS[ty] - 1, 0, a))
                elif op in ("fadd", "fsub", "fmul", "fdiv"):
                    a, b = [val(x) for x in _split_args(rest)]
                    fn = {"fadd": z3.fpAdd, "fsub": z3.fpSub, "fmul": z3.fpMul, "fdiv": z3.fpDiv}[op]
                    env[ins.res] = fn(RNE, a, b)
                elif op == "fneg":
                    env[ins.res] = z3.fpNeg(val(rest))
                elif op == "fcmp":
                    cc, rest2 = rest.split(None, 1)
                    a, b = [val(x) for x in _split_args(rest2)]
                    env[ins.res] = z3.simplify(b2i8(FCMP[cc](a, b)))
                elif op == "stack_addr":
                    env[ins.res] = Ptr(slots[rest.strip()], 0)
                elif op == "global_value":
                    ns, idx = f.userext[f.gvs[rest.strip()]]
                    if ns != 1 or idx not in self.w.data:
                        raise Unsupported("global value that is not a captured data blob")
                    key = f"data{idx}"
                    if key not in self.mem:
                        self.mem[key] = [z3.BitVecVal(b, 8) for b in self.w.data[idx]]
                    env[ins.res] = Ptr(key, 0)
                elif op == "func_addr":
                    kind, ns, idx, sig = f.fns[rest.strip()]
                    if kind != "u" or idx not in self.w.func_ids:
                        raise Unsupported("func_addr of an unknown function")
                    env[ins.res] = FuncAddr(self.w.func_ids[idx])
                elif op == "load":
                    flags_addr = rest.split()
                    p = addr(flags_addr[-1])
                    nb = TY_BITS[ty] // 8
                    v = self.load(p, nb, as_float=ty in ("f32", "f64"))
                    if ty in ("f32", "f64") and not is_marker(v) and not z3.is_fp(v):
                        v = z3.fpBVToFP(v, z3.Float32() if ty == "f32" else z3.Float64())
                    env[ins.res] = v
                elif op == "store":
                    parts = _split_args(rest)
                    v = val(parts[0].split()[-1])
                    p = addr(parts[1])
                    if is_marker(v):
                        self.store(p, v, 8)
                    elif z3.is_fp(v):
                        self.store(p, v, (v.sort().ebits() + v.sort().sbits()) // 8)
                    else:
                        self.store(p, v, v.size() // 8)
                elif op == "jump":
                    blk, bargs = target(rest)
                    jumped = True
                    break
                elif op == "brif":
                    parts = _split_args(rest)
                    c = val(parts[0])
                    if isinstance(c, Ptr):
                        raise Unsupported("branch on pointer")
                    cond = c != z3.BitVecVal(0, c.size())
                    take = self.decide(z3.simplify(cond), f"{fname}:{blk}")
                    blk, bargs = target(parts[1] if take else parts[2])
                    jumped = True
                    break
                elif op == "br_table":
                    m = re.match(r"(v\d+), (block\d+(?:\(.*?\))?), \[(.*)\]", rest)
                    idx = val(m.group(1))
                    tbl = _split_args(m.group(3))
                    chosen = None
                    for i, t in enumerate(tbl):
                        if self.decide(z3.simplify(idx == z3.BitVecVal(i, idx.size())), f"{fname}:{blk}:table{i}"):
                            chosen = t
                            break
                    blk, bargs = target(chosen if chosen is not None else m.group(2))
                    jumped = True
                    break
                elif op == "return":
                    rv = [val(x) for x in _split_args(rest)]
                    return rv[0] if rv else None
                elif op == "call":
                    m = re.match(r"(fn\d+)\((.*)\)", rest)
                    kind, ns, idx, sig = f.fns[m.group(1)]
                    cargs = [val(x) for x in _split_args(m.group(2))]
                    if kind == "lib":
                        if ns != "Memcpy":
                            raise Unsupported(f"libcall {ns}")
                        n = z3.simplify(cargs[2])
                        if not z3.is_bv_value(n):
                            raise Unsupported("memcpy with symbolic length")
                        self.copy(cargs[0], cargs[1], n.as_long())
                        r = cargs[0]
                    elif idx in self.w.tramp:
                        r = self.host_call(self.w.tramp[idx], cargs)
                    elif idx in self.w.func_ids:
                        r = self.call(self.w.func_ids[idx], cargs, depth + 1)
                    else:
                        raise Unsupported(f"call to unknown function id {idx}")
                    if ins.res:
                        env[ins.res] = r
                elif op == "call_indirect":
                    m = re.match(r"(sig\d+), (v\d+)\((.*)\)", rest)
                    fp = z3.simplify(val(m.group(2)))
                    if not z3.is_bv_value(fp) or fp.as_long() not in self.w.addr:
                        raise Unsupported("indirect call to an address missing from the symbol table")
                    kind, tyname = self.w.addr[fp.as_long()]
                    cargs = [val(x) for x in _split_args(m.group(3))]
                    r = self.runtime_op(kind, tyname, cargs)
                    if ins.res:
                        env[ins.res] = r
                elif op == "nop":
                    pass
                else:
                    raise Unsupported(f"opcode {op}: {ins.raw}")
            if not jumped:
                raise Unsupported(f"block {blk} falls through")

    # ---- environment: host functions and per-type clone/drop/eq (models supplied by the caller)
    def host_call(self, name, args):
        model = self.w.host.get(name)
        if model is None:
            raise Unsupported(f"host function {name} has no model")
        return model(self, name, args)

    def runtime_op(self, kind, tyname, args):
        model = self.w.host.get(f"@{kind}:{tyname}") or self.w.host.get(f"@{kind}")
        if model is None:
            raise Unsupported(f"no model for {kind} of {tyname}")
        return model(self, tyname, args)


class Explorer:
    """Enumerates feasible paths of `run(decide)` by depth-first search over branch decisions, using an
    incremental solver for feasibility. `run` must be deterministic given the decisions."""

    def __init__(self, base_constraints=(), max_paths=64, timeout_ms=10000):
        self.solver = z3.Solver()
        self.solver.set("timeout", timeout_ms)
        for c in base_constraints:
            self.solver.add(c)
        self.max_paths = max_paths
        self.queries = 0
        self.unknown = 0

    def feasible(self, conds):
        self.queries += 1
        self.solver.push()
        for c in conds:
            self.solver.add(c)
        r = self.solver.check()
        self.solver.pop()
        if r == z3.unknown:
            self.unknown += 1
        return r == z3.sat

    def explore(self, run):
        """run(decide) -> result. Yields (path_condition_list, result_or_exception) per feasible path."""
        results = []
        stack = [[]]   # list of decision prefixes (list of bools)
        while stack:
            prefix = stack.pop()
            if len(results) >= self.max_paths:
                raise Unsupported("path budget exceeded")
            conds = []
            pos = [0]
            explorer = self

            def decide(cond, what="", force=False):
                c = z3.simplify(cond)
                if z3.is_true(c):
                    return True
                if z3.is_false(c):
                    return False
                if force:
                    # the path continues only where cond holds (used for "no trap here")
                    if not explorer.feasible(conds + [c]):
                        return False
                    conds.append(c)
                    return True
                i = pos[0]
                pos[0] += 1
                if i < len(prefix):
                    d = prefix[i]
                    conds.append(c if d else z3.Not(c))
                    return d
                # new decision point: try True first, schedule False if feasible
                t_ok = explorer.feasible(conds + [c])
                f_ok = explorer.feasible(conds + [z3.Not(c)])
                if t_ok and f_ok:
                    stack.append(prefix[:i] + [False])
                    prefix.append(True)
                    conds.append(c)
                    return True
                if t_ok:
                    prefix.append(True)
                    conds.append(c)
                    return True
                if f_ok:
                    prefix.append(False)
                    conds.append(z3.Not(c))
                    return False
                raise PathCut("infeasible")

            decide.conds = conds
            try:
                res = run(decide)
            except PathCut as e:
                res = e
            results.append((list(conds), res))
        return results
