"""Engine M: symbolic interpretation of slices of rustc MIR - the instruction arms of `lir::eval::eval`
(/repo/src/lir/eval.rs) and the `IrValue` accessors they call (/repo/src/lir/value.rs).

The MIR text comes from `cargo +nightly rustc -- -Zunpretty=mir` on /repo's current tree. For one LIR
instruction (variant + concrete operand *tags*, symbolic payloads) the interpreter follows the MIR from the arm's
entry block to the `HashMap::<Var, IrValue>::insert` that stores the result and returns the stored value as z3
terms, or reports that the evaluator stops loudly (panic), or that a statement is outside the supported subset.
Core operators are modelled by name (`<&u8 as Add>::add` = wrapping add, with the overflow panic of the
`overflow-checks=on` profile as an extra loud-stop condition; integer `/ %` panic on a zero divisor and on MIN / -1)."""
import re
import z3

RNE = z3.RNE()


class Unsupported(Exception):
    pass


class Loud(Exception):
    """the evaluator panics here on every input of this tag combination"""


class Done(Exception):
    def __init__(self, value):
        self.value = value


class EnumV:
    def __init__(self, ty, variant, fields):
        self.ty, self.variant, self.fields = ty, variant, fields

    def __repr__(self):
        return f"{self.ty}::{self.variant}{self.fields}"


class Ref:
    def __init__(self, get):
        self.get = get


class Opaque:
    def __init__(self, what):
        self.what = what


class Scalar:
    """z3 term + rust type name (for signedness / float width)"""

    def __init__(self, term, ty):
        self.t, self.ty = term, ty

    def __repr__(self):
        return f"{self.t}:{self.ty}"


class Bytes:
    """[u8; N] / Vec<u8> / [u8]: a list of 8-bit z3 terms (memory images; x86-64 = little endian)"""

    def __init__(self, bs):
        self.bs = list(bs)

    def __repr__(self):
        return f"Bytes{self.bs}"


class ResultV:
    def __init__(self, ok, val):
        self.ok, self.val = ok, val


class DoneNoValue(Exception):
    """the arm reached the evaluator's `program_counter += 1` without storing a variable"""


INT_BITS = {"u8": 8, "u16": 16, "u32": 32, "u64": 64, "usize": 64, "i8": 8, "i16": 16, "i32": 32, "i64": 64, "isize": 64}


def signed(ty):
    return ty.startswith("i")


def parse_enum_variants(src, name):
    m = re.search(r"pub enum %s\s*\{(.*?)\n\}" % name, src, re.S)
    body = m.group(1)
    body = re.sub(r"//[^\n]*", "", body)
    out, depth, cur = [], 0, ""
    for ch in body:
        if ch in "({[":
            depth += 1
        elif ch in ")}]":
            depth -= 1
        if ch == "," and depth == 0:
            out.append(cur)
            cur = ""
        else:
            cur += ch
    out.append(cur)
    names = []
    for v in out:
        v = re.sub(r"#\[[^\]]*\]", "", v).strip()
        m = re.match(r"(\w+)", v)
        if m:
            names.append(m.group(1))
    return names


class Mir:
    def __init__(self, text, repo):
        self.fns = {}
        self.parse(text)
        lir_src = open(f"{repo}/src/lir/mod.rs").read()
        val_src = open(f"{repo}/src/lir/value.rs").read()
        self.enums = {
            "Instruction": parse_enum_variants(lir_src, "Instruction"),
            "IntCmp": parse_enum_variants(lir_src, "IntCmp"),
            "FloatCmp": parse_enum_variants(lir_src, "FloatCmp"),
            "Operand": parse_enum_variants(lir_src, "Operand"),
            "IrValue": parse_enum_variants(val_src, "IrValue"),
            "IrType": parse_enum_variants(val_src, "IrType"),
        }

    def parse(self, text):
        cur = None
        bb = None
        for line in text.splitlines():
            if line.startswith("fn "):
                m = re.match(r"fn (.*?)\((.*)\)(?: -> (.*))? \{$", line)
                if not m:
                    cur = None
                    continue
                cur = {"name": m.group(1), "params": re.findall(r"(_\d+): ", m.group(2)), "blocks": {}, "types": {}}
                for pm in re.finditer(r"(_\d+): ([^,]+(?:<[^>]*>)?)", m.group(2)):
                    cur["types"][pm.group(1)] = pm.group(2).strip()
                self.fns.setdefault(m.group(1), []).append(cur)
                bb = None
                continue
            if cur is None:
                continue
            if line == "}":
                cur = None
                continue
            m = re.match(r"    let (?:mut )?(_\d+): (.*);", line)
            if m:
                cur["types"][m.group(1)] = m.group(2)
                continue
            m = re.match(r"    (bb\d+)(?: \(cleanup\))?: \{", line)
            if m:
                bb = []
                cur["blocks"][m.group(1)] = bb
                continue
            if line == "    }":
                bb = None
                continue
            if bb is not None and line.startswith("        "):
                bb.append(line.strip())

    def fn(self, pattern):
        c = [f for k, v in self.fns.items() for f in v if re.search(pattern, k)]
        if len(c) != 1:
            raise Unsupported(f"{len(c)} MIR bodies match {pattern}")
        return c[0]


def split_args(a):
    out, depth, cur = [], 0, ""
    for ch in a:
        if ch in "(<[":
            depth += 1
        if ch in ")>]":
            depth -= 1
        if ch == "," and depth == 0:
            out.append(cur)
            cur = ""
        else:
            cur += ch
    if cur.strip():
        out.append(cur)
    return [x.strip() for x in out]


class Interp:
    def __init__(self, mir, overflow_checks, operand_values, mem=None, decide=None, stop_block=None):
        self.m = mir
        self.mem = mem               # model of eval::Memory (c20.MemModel); None = memory calls are unsupported
        self.decide = decide         # path oracle for switches on symbolic values; None = unsupported
        self.stop_block = stop_block
        self.ovf = overflow_checks
        self.loud_conds = []       # (description, z3 Bool): the evaluator panics when this holds
        self.operand_values = operand_values   # id(Operand EnumV) -> IrValue EnumV
        self.steps = 0

    # ---- places / operands
    def place(self, p, env, f):
        p = p.strip()
        if re.fullmatch(r"_\d+", p):
            if p not in env:
                raise Unsupported(f"read of unset local {p}")
            return env[p]
        m = re.fullmatch(r"\(\*(.+)\)", p)
        if m:
            r = self.place(m.group(1), env, f)
            if isinstance(r, Opaque):
                return r           # e.g. `&(*mem)`: the memory object itself is never looked into
            if not isinstance(r, Ref):
                raise Unsupported(f"deref of non-reference {p}")
            return r.get()
        m = re.fullmatch(r"\((.+) as (\w+)\)\.(\d+): .*\)", p[1:] if p.startswith("((") else "")
        m = re.fullmatch(r"\(\((.+) as (\w+)\)\.(\d+): .*\)", p)
        if m:
            base = self.place(m.group(1), env, f)
            if not isinstance(base, EnumV):
                raise Unsupported(f"downcast of non-enum {p}")
            if base.variant != m.group(2):
                raise Unsupported(f"downcast {base.variant} as {m.group(2)}")
            return base.fields[int(m.group(3))]
        m = re.fullmatch(r"(.+)\[(_\d+)\]", p)
        if m:
            base = self.place(m.group(1), env, f)
            idx = z3.simplify(self.place(m.group(2), env, f).t)
            if not isinstance(base, Bytes) or not z3.is_bv_value(idx):
                raise Unsupported("index " + p)
            if idx.as_long() >= len(base.bs):
                raise Loud("index out of bounds")
            return Scalar(base.bs[idx.as_long()], "u8")
        m = re.fullmatch(r"\((.+)\.(\d+): .*\)", p)
        if m:
            base = self.place(m.group(1), env, f)
            if isinstance(base, (list, tuple)):
                return base[int(m.group(2))]
            raise Unsupported(f"field of non-tuple {p}")
        raise Unsupported("place " + p)

    def operand(self, o, env, f):
        o = o.strip()
        for pre in ("no_retag copy ", "no_retag move ", "copy ", "move "):
            if o.startswith(pre):
                return self.place(o[len(pre):], env, f)
        m = re.fullmatch(r"const (-?\d+)_(\w+)", o)
        if m:
            return Scalar(z3.BitVecVal(int(m.group(1)), INT_BITS[m.group(2)]), m.group(2))
        m = re.fullmatch(r"const core::num::<impl (\w+)>::BITS", o)
        if m:
            return Scalar(z3.BitVecVal(INT_BITS[m.group(1)], 32), "u32")
        if o in ("const true", "const false"):
            return Scalar(z3.BoolVal(o == "const true"), "bool")
        if o.startswith("const "):
            return Opaque(o)
        raise Unsupported("operand " + o)

    # ---- statements
    def stmt(self, st, env, f):
        if st.startswith(("StorageLive", "StorageDead", "FakeRead", "PlaceMention", "nop", "Retag", "AscribeUserType", "Coverage", "ConstEvalCounter")):
            return
        m = re.fullmatch(r"(.+?) = (.*);", st)
        if not m:
            raise Unsupported("statement " + st)
        dst, rhs = m.group(1).strip(), m.group(2).strip()
        val = self.rvalue(rhs, env, f, dst)
        if re.fullmatch(r"_\d+", dst):
            env[dst] = val
        else:
            raise Unsupported("assignment to projection " + dst)

    def rvalue(self, rhs, env, f, dst):
        if rhs.startswith("&"):
            p = rhs[1:]
            for pre in ("mut ", "raw const ", "raw mut "):
                if p.startswith(pre):
                    p = p[len(pre):]
            p = p.strip()
            if re.fullmatch(r"_\d+", p):
                return Ref(lambda p=p: env[p])
            v = self.place(p, env, f)
            return Ref(lambda v=v: v)
        m = re.fullmatch(r"discriminant\((.*)\)", rhs)
        if m:
            e = self.place(m.group(1), env, f)
            if not isinstance(e, EnumV):
                raise Unsupported("discriminant of non-enum")
            return Scalar(z3.BitVecVal(self.m.enums[e.ty].index(e.variant), 64), "isize")
        m = re.fullmatch(r"IrValue::(\w+)\((.*)\)", rhs)
        if m:
            return EnumV("IrValue", m.group(1), [self.operand(m.group(2), env, f)])
        m = re.fullmatch(r"(Lt|Le|Gt|Ge|Eq|Ne)\((.*), (.*)\)", rhs)
        if m:
            a, b = self.operand(m.group(2), env, f), self.operand(m.group(3), env, f)
            return Scalar(self.compare(m.group(1), a, b), "bool")
        m = re.fullmatch(r"Not\((.*)\)", rhs)
        if m:
            a = self.operand(m.group(1), env, f)
            return Scalar(z3.Not(a.t) if a.ty == "bool" else ~a.t, a.ty)
        m = re.fullmatch(r"Neg\((.*)\)", rhs)
        if m:
            a = self.operand(m.group(1), env, f)
            return self.arith("Neg", a, None)
        m = re.fullmatch(r"(Add|Sub|Mul|Div|Rem)\((.*), (.*)\)", rhs)
        if m:
            a, b = self.operand(m.group(2), env, f), self.operand(m.group(3), env, f)
            return self.arith(m.group(1), a, b, checked=False)
        m = re.fullmatch(r"(.*) as (\w+) \((IntToInt|FloatToFloat|IntToFloat|FloatToInt)\)", rhs)
        if m:
            v = self.operand(m.group(1), env, f)
            return self.cast(v, m.group(2), m.group(3))
        if rhs.startswith("(") and rhs.endswith(")") and ", " in rhs and not rhs.startswith("(("):
            return [self.operand(x, env, f) for x in split_args(rhs[1:-1])]
        return self.operand(rhs, env, f)

    def compare(self, op, a, b):
        if a.ty in ("f32", "f64"):
            return {"Lt": z3.fpLT, "Le": z3.fpLEQ, "Gt": z3.fpGT, "Ge": z3.fpGEQ, "Eq": z3.fpEQ, "Ne": lambda x, y: z3.Not(z3.fpEQ(x, y))}[op](a.t, b.t)
        if op == "Eq":
            return a.t == b.t
        if op == "Ne":
            return a.t != b.t
        if a.ty == "bool":
            raise Unsupported("ordering on bool")
        if signed(a.ty):
            return {"Lt": a.t < b.t, "Le": a.t <= b.t, "Gt": a.t > b.t, "Ge": a.t >= b.t}[op]
        return {"Lt": z3.ULT, "Le": z3.ULE, "Gt": z3.UGT, "Ge": z3.UGE}[op](a.t, b.t)

    def cast(self, v, to, kind):
        if kind == "IntToInt":
            bits = INT_BITS[to]
            if v.ty == "bool":
                return Scalar(z3.If(v.t, z3.BitVecVal(1, bits), z3.BitVecVal(0, bits)), to)
            if v.ty == "char":
                w = 32
            else:
                w = INT_BITS[v.ty]
            if w < bits:
                t = z3.SignExt(bits - w, v.t) if signed(v.ty) else z3.ZeroExt(bits - w, v.t)
            elif w > bits:
                t = z3.Extract(bits - 1, 0, v.t)
            else:
                t = v.t
            return Scalar(t, to)
        if kind == "FloatToFloat":
            return Scalar(z3.fpFPToFP(RNE, v.t, z3.Float64() if to == "f64" else z3.Float32()), to)
        raise Unsupported("cast " + kind)

    def arith(self, op, a, b, checked=True):
        ty = a.ty
        if ty in ("f32", "f64"):
            if op == "Neg":
                return Scalar(z3.fpNeg(a.t), ty)
            fn = {"Add": z3.fpAdd, "Sub": z3.fpSub, "Mul": z3.fpMul, "Div": z3.fpDiv}.get(op)
            if fn is None:
                raise Unsupported("float " + op)
            return Scalar(fn(RNE, a.t, b.t), ty)
        w = INT_BITS[ty]
        sg = signed(ty)
        if op == "Neg":
            if checked and self.ovf:
                self.loud_conds.append(("attempt to negate with overflow", a.t == z3.BitVecVal(1 << (w - 1), w)))
            return Scalar(-a.t, ty)
        x, y = a.t, b.t
        if op in ("Add", "Sub", "Mul"):
            if checked and self.ovf:
                if op == "Add":
                    ok = z3.And(z3.BVAddNoOverflow(x, y, sg), z3.BVAddNoUnderflow(x, y)) if sg else z3.BVAddNoOverflow(x, y, False)
                elif op == "Sub":
                    ok = z3.And(z3.BVSubNoOverflow(x, y), z3.BVSubNoUnderflow(x, y, True)) if sg else z3.BVSubNoUnderflow(x, y, False)
                else:
                    ok = z3.And(z3.BVMulNoOverflow(x, y, sg), z3.BVMulNoUnderflow(x, y)) if sg else z3.BVMulNoOverflow(x, y, False)
                self.loud_conds.append((f"attempt to {op.lower()} with overflow", z3.Not(ok)))
            return Scalar({"Add": x + y, "Sub": x - y, "Mul": x * y}[op], ty)
        if op in ("Div", "Rem"):
            # Rust's integer / and % panic on a zero divisor and on MIN / -1 in every profile
            bad = y == z3.BitVecVal(0, w)
            if sg:
                bad = z3.Or(bad, z3.And(x == z3.BitVecVal(1 << (w - 1), w), y == z3.BitVecVal(-1, w)))
            self.loud_conds.append((f"attempt to {'divide' if op == 'Div' else 'calculate the remainder'} by zero / with overflow", bad))
            if op == "Div":
                return Scalar(x / y if sg else z3.UDiv(x, y), ty)
            return Scalar(z3.SRem(x, y) if sg else z3.URem(x, y), ty)
        raise Unsupported("arith " + op)

    # ---- terminators
    def term(self, t, env, f, depth):
        if t == "return;":
            return ("ret", env.get("_0"))
        m = re.fullmatch(r"goto -> (bb\d+);", t)
        if m:
            return m.group(1)
        m = re.fullmatch(r"switchInt\((.*)\) -> \[(.*)\];", t)
        if m:
            v = self.operand(m.group(1), env, f)
            c = z3.simplify(v.t)
            if z3.is_bv_value(c):
                val = c.as_long()
            elif z3.is_true(c) or z3.is_false(c):
                val = 1 if z3.is_true(c) else 0
            elif self.decide is not None and z3.is_bv(c):
                other = None
                for arm in m.group(2).split(", "):
                    k, tgt = arm.split(": ")
                    if k == "otherwise":
                        other = tgt
                    elif self.decide(c == z3.BitVecVal(int(k), c.size()), f"mir switch {k}"):
                        return tgt
                return other
            else:
                raise Unsupported("switch on a symbolic value")
            other = None
            for arm in m.group(2).split(", "):
                k, tgt = arm.split(": ")
                if k == "otherwise":
                    other = tgt
                elif int(k) == val:
                    return tgt
            return other
        m = re.fullmatch(r"assert\((!?)(.*?), \"(.*?)\".*\) -> \[success: (bb\d+), unwind.*\];", t)
        if m:
            c = self.operand(m.group(2), env, f).t
            ok = z3.Not(c) if m.group(1) else c
            self.loud_conds.append((m.group(3), z3.Not(ok)))
            return m.group(4)
        m = re.fullmatch(r"(_\d+) = (.*?)\((.*)\) -> (?:\[return: (bb\d+), unwind.*\]|unwind.*|(bb\d+));", t)
        if m:
            dst, callee, args, ret = m.group(1), m.group(2), m.group(3), m.group(4)
            if "panic" in callee or callee in ("core::panicking::panic_fmt", "std::rt::panic_fmt", "std::rt::begin_panic"):
                raise Loud(callee)
            argv = [self.operand(a, env, f) for a in split_args(args)] if args.strip() else []
            env[dst] = self.call(callee, argv, depth)
            if ret is None:
                raise Loud("diverging call " + callee)
            return ret
        m = re.fullmatch(r"drop\(.*\) -> \[return: (bb\d+), unwind.*\];", t)
        if m:
            return m.group(1)
        if t.startswith("unreachable"):
            raise Loud("unreachable")
        raise Unsupported("terminator " + t)

    def call(self, callee, argv, depth):
        if depth > 6:
            raise Unsupported("call depth")
        if callee == "eval_operand":
            op = argv[1].get()
            if id(op) not in self.operand_values:
                raise Unsupported("eval_operand on an unknown operand")
            v = self.operand_values[id(op)]
            return Ref(lambda v=v: v)
        m = re.fullmatch(r"<&(\w+) as (?:std::ops::)?(Add|Sub|Mul|Div|Rem|Neg)(?:<&?\w+>)?>::\w+", callee)
        if m:
            a = argv[0].get()
            b = argv[1].get() if len(argv) > 1 else None
            return self.arith(m.group(2), a, b)
        m = re.fullmatch(r"<&?(\w+) as (?:std::cmp::)?PartialEq(?:<&?\w+>)?>::(eq|ne)", callee)
        if m and m.group(1) in list(INT_BITS) + ["bool", "char", "f32", "f64", "Asn"]:
            a, b = argv[0].get(), argv[1].get()
            if callee.startswith("<&"):
                a, b = a.get() if isinstance(a, Ref) else a, b.get() if isinstance(b, Ref) else b
            r = self.compare("Eq", a, b)
            return Scalar(r if m.group(2) == "eq" else z3.Not(r), "bool")
        m = re.fullmatch(r"(?:core::num::<impl )?(u8|u16|u32|u64|i8|i16|i32|i64)>?::(wrapping_add|wrapping_sub|wrapping_mul|wrapping_neg|saturating_add|saturating_sub)", callee)
        if m:
            ty, op = m.group(1), m.group(2)
            a = argv[0]
            b = argv[1] if len(argv) > 1 else None
            w, sg = INT_BITS[ty], signed(ty)
            if op.startswith("wrapping"):
                t = {"wrapping_add": lambda: a.t + b.t, "wrapping_sub": lambda: a.t - b.t, "wrapping_mul": lambda: a.t * b.t, "wrapping_neg": lambda: -a.t}[op]()
                return Scalar(t, ty)
            mx = z3.BitVecVal((1 << (w - 1)) - 1 if sg else (1 << w) - 1, w)
            mn = z3.BitVecVal(1 << (w - 1) if sg else 0, w)
            if op == "saturating_add":
                r = a.t + b.t
                if sg:
                    t = z3.If(z3.Not(z3.BVAddNoOverflow(a.t, b.t, True)), mx, z3.If(z3.Not(z3.BVAddNoUnderflow(a.t, b.t)), mn, r))
                else:
                    t = z3.If(z3.BVAddNoOverflow(a.t, b.t, False), r, mx)
            else:
                r = a.t - b.t
                if sg:
                    t = z3.If(z3.Not(z3.BVSubNoOverflow(a.t, b.t)), mx, z3.If(z3.Not(z3.BVSubNoUnderflow(a.t, b.t, True)), mn, r))
                else:
                    t = z3.If(z3.ULT(a.t, b.t), mn, r)
            return Scalar(t, ty)
        m = re.fullmatch(r"(?:core::num::<impl )?(u8|u16|u32|u64|i8|i16|i32|i64)>?::(rem_euclid|div_euclid|wrapping_rem|wrapping_div|wrapping_rem_euclid|wrapping_div_euclid|"
                         r"abs|wrapping_abs|unsigned_abs|abs_diff|min|max|signum|is_negative|is_positive|count_ones|leading_zeros|trailing_zeros|swap_bytes|reverse_bits|"
                         r"wrapping_shl|wrapping_shr|rotate_left|rotate_right|pow|wrapping_pow|checked_add|checked_sub|checked_mul|checked_div|checked_rem|"
                         r"overflowing_add|overflowing_sub|overflowing_mul)", callee)
        if m:
            ty, op = m.group(1), m.group(2)
            w, sg = INT_BITS[ty], signed(ty)
            x = argv[0].t
            y = argv[1].t if len(argv) > 1 and hasattr(argv[1], "t") else None
            zero, MIN, M1 = z3.BitVecVal(0, w), z3.BitVecVal(1 << (w - 1), w), z3.BitVecVal(-1, w)
            if op in ("rem_euclid", "div_euclid", "wrapping_rem", "wrapping_div", "wrapping_rem_euclid", "wrapping_div_euclid"):
                # all of them panic on a zero divisor in every profile; the non-wrapping ones also on MIN / -1
                bad = y == zero
                if sg and not op.startswith("wrapping"):
                    bad = z3.Or(bad, z3.And(x == MIN, y == M1))
                self.loud_conds.append((f"{op}: zero divisor / overflow", bad))
                if not sg:
                    return Scalar(z3.UDiv(x, y) if "div" in op else z3.URem(x, y), ty)
                q, r = x / y, z3.SRem(x, y)
                if op in ("wrapping_div",):
                    return Scalar(q, ty)            # MIN / -1 wraps to MIN, which is what bvsdiv gives
                if op in ("wrapping_rem",):
                    return Scalar(r, ty)
                if "rem" in op:
                    # r < 0 ? (rhs < 0 ? r - rhs : r + rhs) : r      (core::num::int_macros rem_euclid, wrapping arithmetic)
                    return Scalar(z3.If(r < 0, z3.If(y < 0, r - y, r + y), r), ty)
                return Scalar(z3.If(r < 0, z3.If(y > 0, q - 1, q + 1), q), ty)
            if op in ("abs", "wrapping_abs", "unsigned_abs"):
                if op == "abs" and self.ovf:
                    self.loud_conds.append(("abs of MIN with overflow", x == MIN))
                return Scalar(z3.If(x < 0, -x, x) if sg else x, ty if op != "unsigned_abs" else ty.replace("i", "u"))
            if op in ("min", "max"):
                lt = (x < y) if sg else z3.ULT(x, y)
                return Scalar(z3.If(lt, x, y) if op == "min" else z3.If(lt, y, x), ty)
            if op == "signum":
                return Scalar(z3.If(x == zero, zero, z3.If(x < 0, M1, z3.BitVecVal(1, w))), ty)
            if op in ("is_negative", "is_positive"):
                return Scalar((x < 0) if op == "is_negative" else (x > 0), "bool")
            raise Unsupported(f"std integer function {op} (recognised, no model)")
        m = re.fullmatch(r"(?:core::f(?:32|64)::<impl )?(f32|f64)>?::to_bits", callee)
        if m:
            a = argv[0]
            return Scalar(z3.fpToIEEEBV(a.t), "u32" if m.group(1) == "f32" else "u64")
        m = re.fullmatch(r"core::(?:num|f32|f64)::<impl (\w+)>::to_(ne|le|be)_bytes", callee)
        if m:
            a = argv[0]
            t = z3.fpToIEEEBV(a.t) if m.group(1) in ("f32", "f64") else a.t
            n = t.size() // 8
            bs = [z3.simplify(z3.Extract(8 * i + 7, 8 * i, t)) for i in range(n)]
            return Bytes(bs[::-1] if m.group(2) == "be" else bs)
        m = re.fullmatch(r"core::(?:num|f32|f64)::<impl (\w+)>::from_(ne|le|be)_bytes", callee)
        if m:
            ty, b = m.group(1), argv[0]
            if not isinstance(b, Bytes):
                raise Unsupported("from_bytes of a non-array")
            bs = b.bs[::-1] if m.group(2) == "be" else b.bs
            want = {"f32": 4, "f64": 8}.get(ty) or INT_BITS[ty] // 8
            if len(bs) != want:
                raise Unsupported("from_bytes width")
            t = bs[0] if len(bs) == 1 else z3.Concat(*bs[::-1])
            # a load of exactly the term a store split up gives that term back (keeps solver terms small)
            t = z3.simplify(t)
            if ty in ("f32", "f64"):
                return Scalar(z3.fpBVToFP(t, z3.Float32() if ty == "f32" else z3.Float64()), ty)
            return Scalar(t, ty)
        if re.fullmatch(r"<\[u8; \d+\] as Into<Vec<u8>>>::into", callee):
            return argv[0]
        if callee == "<Vec<u8> as std::ops::Deref>::deref":
            v = argv[0].get()
            return Ref(lambda v=v: v)
        m = re.fullmatch(r"<&\[u8\] as std::convert::TryInto<&\[u8; (\d+)\]>>::try_into", callee)
        if m:
            v = argv[0].get()
            return ResultV(len(v.bs) == int(m.group(1)), Ref(lambda v=v: v))
        if re.fullmatch(r"std::result::Result::<&\[u8; \d+\], TryFromSliceError>::unwrap", callee):
            if not argv[0].ok:
                raise Loud("unwrap of a slice of the wrong length")
            return argv[0].val
        if callee in ("inetnum::asn::Asn::into_u32", "inetnum::asn::Asn::from_u32"):
            return Scalar(argv[0].t, "u32" if callee.endswith("into_u32") else "Asn")
        m = re.fullmatch(r"eval::Memory::(offset_by|write|read_slice|copy|allocate)", callee)
        if m:
            if self.mem is None:
                raise Unsupported("memory instruction without a memory model")

            def conc(v):
                c = z3.simplify(v.t)
                if not z3.is_bv_value(c):
                    raise Unsupported("symbolic pointer / size")
                return c.as_long()
            op = m.group(1)
            if op == "offset_by":
                return Scalar(z3.BitVecVal(self.mem.offset_by(conc(argv[1]), conc(argv[2])), 64), "usize")
            if op == "allocate":
                return Scalar(z3.BitVecVal(self.mem.allocate(conc(argv[1])), 64), "usize")
            if op == "write":
                v = argv[2].get()
                self.mem.write(conc(argv[1]), v.bs)
                return Opaque("()")
            if op == "read_slice":
                v = Bytes(self.mem.read_slice(conc(argv[1]), conc(argv[2])))
                return Ref(lambda v=v: v)
            self.mem.copy(conc(argv[1]), conc(argv[2]), conc(argv[3]))
            return Opaque("()")
        m = re.fullmatch(r"(IrValue::(?:as_vec|from_slice)|IrType::bytes)", callee)
        if m:
            f2 = self.m.fn(r"lir::value::<impl at src/lir/value\.rs:[\d: ]+>::%s$" % callee.split("::")[1])
            env2 = dict(zip(f2["params"], argv))
            return self.run(f2, "bb0", env2, depth + 1)
        if callee == "<lir::Var as std::clone::Clone>::clone":
            return Opaque("var")
        if callee == "<IrValue as std::clone::Clone>::clone":
            return argv[0].get()
        if callee.startswith("HashMap::<lir::Var, IrValue>::insert"):
            raise Done(argv[2])
        m = re.fullmatch(r"IrValue::(as_bool|as_u64|as_i64|as_f64|switch_on)", callee)
        if m:
            f2 = self.m.fn(r"lir::value::<impl at src/lir/value\.rs:[\d: ]+>::%s$" % m.group(1))
            env2 = {f2["params"][0]: argv[0]}
            return self.run(f2, "bb0", env2, depth + 1)
        m = re.fullmatch(r"<&?IrValue as PartialEq>::(eq|ne)", callee)
        if m:
            f2 = [x for x in self.m.fns.items() if re.search(r"lir::value::<impl at src/lir/value\.rs:[\d: ]+>::eq$", x[0]) and "&IrValue" in str(x[1][0]["types"].values())]
            cands = [b for k, v in self.m.fns.items() for b in v if re.search(r"lir::value::<impl at src/lir/value\.rs:[\d: ]+>::eq$", k)
                     and b["types"].get("_1", "").endswith("IrValue")]
            if len(cands) != 1:
                raise Unsupported(f"{len(cands)} candidates for IrValue::eq")
            a, b = argv[0], argv[1]
            # `<&IrValue as PartialEq>::eq(&&IrValue, &&IrValue)`: strip one reference level
            if callee.startswith("<&"):
                a, b = a.get(), b.get()
            env2 = {cands[0]["params"][0]: a, cands[0]["params"][1]: b}
            r = self.run(cands[0], "bb0", env2, depth + 1)
            return r if m.group(1) == "eq" else Scalar(z3.Not(r.t), "bool")
        if callee.startswith("Arguments::"):
            return Opaque("fmt")
        raise Unsupported("call " + callee)

    def run(self, f, start, env, depth=0):
        bb = start
        while True:
            self.steps += 1
            if depth == 0 and bb == self.stop_block:
                raise DoneNoValue()
            if self.steps > 2000:
                raise Unsupported("too many steps")
            stmts = f["blocks"][bb]
            for st in stmts[:-1]:
                self.stmt(st, env, f)
            nxt = self.term(stmts[-1], env, f, depth)
            if isinstance(nxt, tuple):
                return nxt[1]
            bb = nxt


def eval_fn(mir):
    return mir.fn(r"^eval$")


def arm_entries(mir):
    """instruction variant name -> entry basic block of its arm, read from the dispatching switchInt"""
    if getattr(mir, "_arms", None):
        return mir._arms
    mir._arms = _arm_entries(mir)
    return mir._arms


def _arm_entries(mir):
    f = eval_fn(mir)
    for bb, stmts in f["blocks"].items():
        if len(stmts) >= 2 and re.fullmatch(r"_\d+ = discriminant\(\(\*_\d+\)\);", stmts[-2]) and stmts[-1].startswith("switchInt"):
            arms = re.findall(r"(\d+): (bb\d+)", stmts[-1])
            if len(arms) >= len(mir.enums["Instruction"]) - 1:
                loc = re.match(r"(_\d+) = discriminant\(\(\*(_\d+)\)\);", stmts[-2]).group(2)
                return {mir.enums["Instruction"][int(k)]: b for k, b in arms}, loc
    raise Unsupported("instruction dispatch not found in eval's MIR")


def continuation_block(mir):
    """the block of eval's loop that does `program_counter += 1`: where the Assign arm continues after its insert"""
    if getattr(mir, "_cont", None):
        return mir._cont
    f = eval_fn(mir)
    entries, _ = arm_entries(mir)
    seen, todo = set(), [entries["Assign"]]
    while todo:
        b = todo.pop()
        if b in seen:
            continue
        seen.add(b)
        t = f["blocks"][b][-1]
        m = re.fullmatch(r"_\d+ = HashMap::<lir::Var, IrValue>::insert\(.*\) -> \[return: (bb\d+), unwind.*\];", t)
        if m:
            b2 = m.group(1)
            while len(f["blocks"][b2]) == 1 and re.fullmatch(r"goto -> (bb\d+);", f["blocks"][b2][0]):
                b2 = re.fullmatch(r"goto -> (bb\d+);", f["blocks"][b2][0]).group(1)
            mir._cont = b2
            return b2
        m = re.search(r"\[return: (bb\d+), unwind", t) or re.fullmatch(r"goto -> (bb\d+);", t)
        if m:
            todo.append(m.group(1))
        for k in re.findall(r"(?:\d+|otherwise): (bb\d+)", t):
            todo.append(k)
    raise Unsupported("continuation block of eval's loop not found")


def _callee_of(term):
    """callee of a call terminator `_N = CALLEE(ARGS) -> ..` (generic arguments of CALLEE may contain parentheses)"""
    m = re.fullmatch(r"(?:_\d+|\(.*?\)) = (.*) -> (?:\[return: bb\d+, unwind.*\]|unwind.*|bb\d+);", term)
    if not m:
        return None
    body = m.group(1)
    if not body.endswith(")"):
        return None
    depth = 0
    for i in range(len(body) - 1, -1, -1):
        if body[i] == ")":
            depth += 1
        elif body[i] == "(":
            depth -= 1
            if depth == 0:
                return re.sub(r"\{closure@[^}]*\}", "{closure}", body[:i])
    return None


def arm_callees(mir, variant):
    """sorted callees on the normal (non-unwind) paths of the arm of `Instruction::<variant>` in eval's loop, from the arm's
    entry block to the end of the iteration: the code shape a hand-written model of that arm was written for"""
    f = eval_fn(mir)
    entries, _ = arm_entries(mir)
    cont = continuation_block(mir)
    head = cont
    for _ in range(8):
        t = f["blocks"][head][-1]
        m = re.search(r"success: (bb\d+)", t) or re.fullmatch(r"goto -> (bb\d+);", t)
        if not m:
            break
        head = m.group(1)
    seen, todo, out = set(), [entries[variant]], []
    while todo:
        b = todo.pop()
        if b in seen or b in (cont, head):
            continue
        seen.add(b)
        t = f["blocks"][b][-1]
        c = _callee_of(t)
        if c is not None:
            out.append(c)
        for rx in (r"\[return: (bb\d+)", r"success: (bb\d+)"):
            m = re.search(rx, t)
            if m:
                todo.append(m.group(1))
        m = re.fullmatch(r"goto -> (bb\d+);", t)
        if m:
            todo.append(m.group(1))
        if t.startswith("switchInt"):
            todo += re.findall(r": (bb\d+)", t)
    return sorted(out)


def run_instruction(mir, variant, fields, operand_values, overflow_checks, mem=None, decide=None):
    """fields: list of field values of the Instruction variant (EnumV / Opaque); operand_values: [(operand EnumV, IrValue EnumV)].
    Returns ('value', IrValue EnumV, loud_conds) | ('loud', reason, []) | raises Unsupported."""
    f = eval_fn(mir)
    entries, inst_local = arm_entries(mir)
    it = Interp(mir, overflow_checks, {id(o): v for o, v in operand_values}, mem, decide, continuation_block(mir) if mem is not None else None)
    inst = EnumV("Instruction", variant, fields)
    vars_local = None
    # the local holding `vars` is whatever eval_operand gets as first argument in the arm: give every &_N a dummy
    env = _Env({inst_local: Ref(lambda: inst)})
    try:
        it.run(f, entries[variant], env)
    except Done as d:
        return ("value", d.value, it.loud_conds)
    except DoneNoValue:
        return ("novalue", None, it.loud_conds)
    except Loud as l:
        return ("loud", str(l), it.loud_conds)
    return ("loud", "fell off the arm", it.loud_conds)


class _Env(dict):
    """locals that are never assigned inside the arm (the `vars` map, memory, ...) read as opaque objects"""

    def __missing__(self, k):
        v = Opaque(k)
        self[k] = v
        return v

    def __contains__(self, k):
        return True
