//! Environment stubs (each one is part of the claim of the harnesses that use it
//! and is listed in the evidence).
use std::sync::{LockResult, Mutex, MutexGuard, TryLockError};

/// `Mutex::lock` in a single-threaded (sequentialised) world: taking a free
/// mutex succeeds exactly like `try_lock`; taking a mutex that is already held
/// can never return, which is reported as a failed check ("DEADLOCK") instead of
/// symbolically executing the futex wait loop.
pub fn mutex_lock_stub<T: ?Sized>(m: &Mutex<T>) -> LockResult<MutexGuard<'_, T>> {
    match m.try_lock() {
        Ok(g) => Ok(g),
        Err(TryLockError::Poisoned(p)) => Err(p),
        Err(TryLockError::WouldBlock) => {
            #[cfg(kani)]
            {
                kani::assert(false, "DEADLOCK: lock() on a mutex that is already held by the running operation");
                kani::assume(false);
            }
            unreachable!()
        }
    }
}

/// `core::ptr::swap_nonoverlapping` by its reference semantics: exchange
/// `count * size_of::<T>()` bytes one at a time (std's chunked SIMD-style
/// implementation exhausts CBMC). CBMC's pointer checks still apply to every
/// byte access, and overlap is a failed check.
pub unsafe fn swap_nonoverlapping_stub<T>(x: *mut T, y: *mut T, count: usize) {
    let n = count * std::mem::size_of::<T>();
    let xb = x as *mut u8;
    let yb = y as *mut u8;
    #[cfg(kani)]
    kani::assert(
        (xb as usize) + n <= (yb as usize) || (yb as usize) + n <= (xb as usize),
        "swap_nonoverlapping called on overlapping regions",
    );
    let mut i = 0;
    while i < n {
        unsafe {
            let t = *xb.add(i);
            *xb.add(i) = *yb.add(i);
            *yb.add(i) = t;
        }
        i += 1;
    }
}

/// `core::panicking::assert_failed` (the failure path of `assert_eq!` / `assert_ne!`): the real one formats both
/// operands with `Debug` before panicking, which CBMC executes symbolically at every `assert_eq!` in the code under
/// test. The stub panics at once: which assertion failed and why is irrelevant to a "must stop" harness.
#[cfg(kani)]
pub fn assert_failed_stub<T: core::fmt::Debug + ?Sized, U: core::fmt::Debug + ?Sized>(
    _kind: core::panicking::AssertKind,
    _left: &T,
    _right: &U,
    _args: Option<core::fmt::Arguments<'_>>,
) -> ! {
    panic!("assert_eq!/assert_ne! failed")
}
