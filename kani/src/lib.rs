//! Kani proof harnesses over the real roto code (engine K of /verif/DESIGN.md).
//!
//! Every harness is a plain `pub fn` that draws its inputs from `nd::any()`.
//! Under `cargo kani` those are symbolic and CBMC decides the assertions for
//! all values within the bounds stated next to each harness; natively the very
//! same function is the *replay twin* (`src/bin/replay.rs`).
#![cfg_attr(kani, feature(panic_internals))]
#![allow(clippy::all)]
#![allow(static_mut_refs)]

extern crate alloc;

pub mod nd;
pub mod stubs;

pub mod c02_layout;
pub mod c05_mirror;
pub mod c06_lexer;
pub mod c09_grammar;
pub mod c10_builtins;
pub mod c15_list;
pub mod c15_list_gen;
pub mod c16_sched;
pub mod c17_strings;
pub mod c20_memory;

/// Trivial harness used only to compile the dependency (roto) once before the per-harness runs start; its
/// verdict does not depend on the code under test.
#[cfg_attr(kani, kani::proof)]
pub fn k_build_probe() {
    let x: u8 = nd::any();
    assert!(x as u16 + 1 > 0);
}

pub type Harness = (&'static str, fn());

/// `list![a, b]` → `&[("a", a), ("b", b)]`
#[macro_export]
macro_rules! list {
    ($($f:ident),* $(,)?) => {
        pub const LIST: &[$crate::Harness] = &[$((stringify!($f), $f as fn())),*];
        pub const MODULE: &str = module_path!();
    };
}

pub fn all() -> Vec<Harness> {
    let mut v = Vec::new();
    v.extend_from_slice(c02_layout::LIST);
    v.extend_from_slice(c05_mirror::LIST);
    v.extend_from_slice(c06_lexer::LIST);
    v.extend_from_slice(c09_grammar::LIST);
    v.extend_from_slice(c10_builtins::LIST);
    v.extend_from_slice(c15_list::LIST);
    v.extend_from_slice(c15_list_gen::LIST);
    v.extend_from_slice(c16_sched::LIST);
    v.extend_from_slice(c17_strings::LIST);
    v.extend_from_slice(c20_memory::LIST);
    v
}
