//! C06 (lexer and span layer): no token recogniser panics, loops or reports a
//! span outside the input / off a character boundary, for EVERY UTF-8 string
//! of at most N bytes.  Composition: `next_token` = skip whitespace, then the
//! first recogniser that fires; every later lexer state is `(suffix of the
//! input, original_length)`, so a recogniser-level step from an arbitrary input
//! covers token streams of any length whose individual tokens fit N bytes.
//!
//! Stub (part of the claim): `Lexer::record_almost_keyword` -> no-op. It only
//! records a "did you mean `record`?" hint; it interns the identifier through
//! the global symbol table, which costs CBMC 13 s per insertion.
use crate::cover;
use crate::nd::{assume, Bytes};
use roto::verif_api::{FStringToken, Lexer, Token};
use std::ops::{ControlFlow, Range};

pub fn noop_almost<'s>(_l: &mut Lexer<'s>, _x: &str, _span: Range<usize>)
where
    's: 's,
{
}

/// stand-in for `next_token` when it recognises nothing: it may have skipped
/// any amount of leading whitespace/comments (modelled as: any prefix ending
/// on a character boundary), then declines.
pub fn next_token_declines<'s>(l: &mut Lexer<'s>) -> ControlFlow<(Token<'s>, Range<usize>)>
where
    's: 's,
{
    let rest = l.verif_rest();
    let n: usize = crate::nd::any();
    assume(n <= rest.len() && rest.is_char_boundary(n));
    l.verif_bump(n);
    ControlFlow::Continue(())
}

/// length of the character starting at `b[i]` if it is one of eight known whitespace characters
/// (space, tab, LF, CR, U+0085, U+00A0, U+2003, U+3000), else 0
fn known_whitespace_at(b: &[u8], i: usize) -> usize {
    let n = b.len() - i;
    let c0 = b[i];
    if c0 == b' ' || c0 == b'\t' || c0 == b'\n' || c0 == b'\r' {
        return 1;
    }
    if n >= 2 && c0 == 0xC2 && (b[i + 1] == 0x85 || b[i + 1] == 0xA0) {
        return 2;
    }
    if n >= 3 && ((c0 == 0xE2 && b[i + 1] == 0x80 && b[i + 2] == 0x83) || (c0 == 0xE3 && b[i + 1] == 0x80 && b[i + 2] == 0x80)) {
        return 3;
    }
    0
}

/// stand-in for `next_token` that can be replayed against the real lexer: it skips the longest prefix made of the
/// eight whitespace characters above (the real `skip_whitespace` skips these too) and then declines. Unlike
/// `next_token_declines` it never skips text the real lexer would not skip, so a counterexample is an input on which
/// the real `next_token` behaves the same way up to the point of interest.
pub fn next_token_skips_known_whitespace<'s>(l: &mut Lexer<'s>) -> ControlFlow<(Token<'s>, Range<usize>)>
where
    's: 's,
{
    let rest = l.verif_rest().as_bytes();
    let mut n = 0;
    while n < rest.len() {
        let w = known_whitespace_at(rest, n);
        if w == 0 {
            break;
        }
        n += w;
    }
    l.verif_bump(n);
    ControlFlow::Continue(())
}

fn check_span(s: &str, lx: &Lexer<'_>, span: &Range<usize>) {
    assert!(span.start == 0, "token does not start at the cursor");
    assert!(span.end > 0, "empty token: the lexer would not advance");
    assert!(span.end <= s.len(), "span ends outside the input");
    assert!(s.is_char_boundary(span.end), "span ends inside a character");
    assert!(lx.verif_rest().len() == s.len() - span.end, "cursor and span disagree");
}

macro_rules! recogniser {
    ($name:ident, $n:expr, $unwind:expr, $method:ident, $ascii:expr) => {
        #[cfg_attr(kani, kani::proof)]
        #[cfg_attr(kani, kani::unwind($unwind))]
        #[cfg_attr(kani, kani::stub(roto::parser::lexer::Lexer::record_almost_keyword, noop_almost))]
        pub fn $name() {
            let b: Bytes<$n> = if $ascii { Bytes::any_ascii() } else { Bytes::any() };
            if let Some(s) = b.as_str() {
                let mut lx = Lexer::new(s);
                match lx.$method() {
                    Some((_tok, span)) => {
                        check_span(s, &lx, &span);
                    }
                    None => {
                        assert!(lx.verif_rest().len() == s.len(), "declined but consumed input");
                        cover!(s.len() == $n, "declined_full_length_input");
                    }
                }
                cover!(s.len() == $n && ($ascii || !s.is_ascii()), "full_length_input_handled_non_ascii_unless_ascii_only");
            }
        }
    };
}

// every UTF-8 string of <= 3 bytes (quick tier)
recogniser!(c06_ipv6_3, 3, 6, verif_ipv6, false);
recogniser!(c06_ipv4_3, 3, 6, verif_ipv4, false);
recogniser!(c06_two_char_3, 3, 6, verif_two_char_punctuation, false);
recogniser!(c06_one_char_3, 3, 6, verif_one_char_punctuation, false);
recogniser!(c06_as_number_3, 3, 6, verif_as_number, false);
recogniser!(c06_hex_number_3, 3, 6, verif_hex_number, false);
recogniser!(c06_number_3, 3, 6, verif_number, false);
recogniser!(c06_f_string_3, 3, 6, verif_f_string, false);
recogniser!(c06_string_3, 3, 6, verif_string, false);
recogniser!(c06_char_3, 3, 6, verif_char, false);
recogniser!(c06_keyword_or_ident_3, 3, 6, verif_keyword_or_ident, false);
// thorough tier: 4 bytes (UTF-8) / 5 bytes (ASCII)
recogniser!(c06_ipv6_4, 4, 7, verif_ipv6, false);
recogniser!(c06_ipv4_4, 4, 7, verif_ipv4, false);
recogniser!(c06_as_number_4, 4, 7, verif_as_number, false);
recogniser!(c06_hex_number_4, 4, 7, verif_hex_number, false);
recogniser!(c06_number_4, 4, 7, verif_number, false);
recogniser!(c06_string_4, 4, 7, verif_string, false);
recogniser!(c06_char_4, 4, 7, verif_char, false);
recogniser!(c06_keyword_or_ident_4, 4, 7, verif_keyword_or_ident, false);
recogniser!(c06_number_ascii_5, 5, 8, verif_number, true);
recogniser!(c06_ipv4_ascii_5, 5, 8, verif_ipv4, true);

macro_rules! whitespace {
    ($name:ident, $n:expr, $unwind:expr) => {
        #[cfg_attr(kani, kani::proof)]
        #[cfg_attr(kani, kani::unwind($unwind))]
        pub fn $name() {
            let b: Bytes<$n> = Bytes::any();
            if let Some(s) = b.as_str() {
                let mut lx = Lexer::new(s);
                lx.verif_skip_whitespace();
                let rest = lx.verif_rest();
                assert!(rest.len() <= s.len());
                assert!(s.is_char_boundary(s.len() - rest.len()));
                cover!(rest.len() < s.len(), "skipped_something");
            }
        }
    };
}
whitespace!(c06_skip_whitespace_2, 2, 5);
whitespace!(c06_skip_whitespace_3, 3, 6);
whitespace!(c06_skip_whitespace_4, 4, 7);

/// `skip_shebang` on every UTF-8 string of <= N bytes: no panic; the cursor stays on a character boundary inside
/// the input; only an input starting with `#!` loses anything, and then exactly its first line (through the first
/// newline, or everything when there is none).
macro_rules! shebang {
    ($name:ident, $n:expr, $unwind:expr) => {
        #[cfg_attr(kani, kani::proof)]
        #[cfg_attr(kani, kani::unwind($unwind))]
        pub fn $name() {
            let b: Bytes<$n> = Bytes::any();
            if let Some(s) = b.as_str() {
                let by = b.bytes();
                let mut lx = Lexer::new(s);
                lx.skip_shebang();
                let rest = lx.verif_rest();
                assert!(rest.len() <= s.len(), "cursor past the end");
                let k = s.len() - rest.len();
                assert!(s.is_char_boundary(k), "cursor inside a character");
                if k > 0 {
                    assert!(by.len() >= 2 && by[0] == b'#' && by[1] == b'!', "input without #! lost a prefix");
                    let mut e = 0;
                    while e < by.len() && by[e] != b'\n' {
                        e += 1;
                    }
                    let line = if e < by.len() { e + 1 } else { by.len() };
                    assert!(k == line, "a shebang line ends at its newline (or at the end of the input)");
                }
                cover!(k == $n, "whole_input_is_a_shebang_line");
                cover!(k == 0 && by.len() == $n && by[0] == b'#' && by[1] == b'!', "hash_bang_followed_by_whitespace_is_not_a_shebang");
            }
        }
    };
}
shebang!(c06_shebang_3, 3, 6);
shebang!(c06_shebang_4, 4, 7);

/// The parser's token layer (`Parser::next`, through hook H8) on every UTF-8 string of <= N bytes: whatever it
/// reports - a token, an invalid-token error, the end-of-input error, or `run_parser`'s "failed to parse the entire
/// input" - cites a location inside the file whose ends lie on character boundaries. The recognisers (which have their
/// own harnesses) are replaced by `next_token_skips_known_whitespace`: leading whitespace drawn from eight characters
/// is skipped, then nothing is recognised - so a counterexample replays against the real lexer.
macro_rules! parser_next {
    ($name:ident, $n:expr, $unwind:expr) => {
        #[cfg_attr(kani, kani::proof)]
        #[cfg_attr(kani, kani::unwind($unwind))]
        #[cfg_attr(kani, kani::stub(roto::parser::lexer::Lexer::next_token, next_token_skips_known_whitespace))]
        pub fn $name() {
            let b: Bytes<$n> = Bytes::any();
            if let Some(s) = b.as_str() {
                let mut spans = roto::verif_api::Spans::default();
                let mut seen: Option<Result<Range<usize>, Range<usize>>> = None;
                let r = roto::verif_api::Parser::run_parser(
                    |p| {
                        seen = Some(p.verif_next());
                        Ok(())
                    },
                    0,
                    &mut spans,
                    s,
                );
                let inside = |loc: &Range<usize>| {
                    loc.start <= loc.end && loc.end <= s.len() && s.is_char_boundary(loc.start) && s.is_char_boundary(loc.end)
                };
                match &seen {
                    Some(Err(loc)) => {
                        assert!(inside(loc), "the parser's error location is outside the file or inside a character");
                        cover!(loc.start == s.len() && s.len() == $n && !s.is_ascii(), "end_of_input_after_non_ascii_text");
                        cover!(loc.end > loc.start, "invalid_token");
                    }
                    Some(Ok(tok)) => {
                        // only the native replay (real recognisers) gets here
                        #[cfg(kani)]
                        assert!(false, "no recogniser fired, yet a token was returned");
                        assert!(inside(tok), "token span outside the file or inside a character");
                    }
                    None => assert!(false, "the parser closure did not run"),
                }
                if let Err(e) = r {
                    let loc = e.location.start..e.location.end;
                    assert!(inside(&loc), "run_parser's error location is outside the file or inside a character");
                    std::mem::forget(e);
                }
                std::mem::forget(spans);
            }
        }
    };
}
parser_next!(c06_parser_next_3, 3, 6);
parser_next!(c06_parser_next_4, 4, 7);

macro_rules! fstring_part {
    ($name:ident, $n:expr, $unwind:expr) => {
        #[cfg_attr(kani, kani::proof)]
        #[cfg_attr(kani, kani::unwind($unwind))]
        pub fn $name() {
            let b: Bytes<$n> = Bytes::any();
            if let Some(s) = b.as_str() {
                let mut lx = Lexer::new(s);
                if let Some((tok, span)) = lx.f_string_part() {
                    assert!(span.start == 0 && span.end <= s.len(), "part outside the input");
                    assert!(s.is_char_boundary(span.end), "part ends inside a character");
                    let text = match tok {
                        FStringToken::StringEnd(t) => t,
                        FStringToken::StringIntermediate(t) => t,
                    };
                    assert!(text.len() == span.end, "part text and span disagree");
                    cover!(span.end >= 2, "multi_byte_part");
                }
            }
        }
    };
}
fstring_part!(c06_f_string_part_3, 3, 6);
fstring_part!(c06_f_string_part_4, 4, 7);

/// The escape path of `f_string_part` on its own: the text starts with a backslash, the bytes after it are symbolic
/// (sixth seeding round: an escape skipped as two *bytes* lands inside a multi-byte escaped character; the general
/// 3-byte harness ran out of memory on that rewritten scanner, fixing the first byte keeps this one small).
macro_rules! fstring_part_escape {
    ($name:ident, $n:expr, $unwind:expr) => {
        #[cfg_attr(kani, kani::proof)]
        #[cfg_attr(kani, kani::unwind($unwind))]
        pub fn $name() {
            let b: Bytes<$n> = Bytes::any();
            if let Some(s) = b.as_str() {
                assume(s.len() >= 2 && s.as_bytes()[0] == b'\\');
                let mut lx = Lexer::new(s);
                if let Some((tok, span)) = lx.f_string_part() {
                    assert!(span.start == 0 && span.end <= s.len(), "part outside the input");
                    assert!(s.is_char_boundary(span.end), "part ends inside a character");
                    let text = match tok {
                        FStringToken::StringEnd(t) => t,
                        FStringToken::StringIntermediate(t) => t,
                    };
                    assert!(text.len() == span.end, "part text and span disagree");
                }
                cover!(s.len() == $n && s.as_bytes()[1] >= 0x80, "escaped_multi_byte_char");
            }
        }
    };
}
fstring_part_escape!(c06_f_string_part_escape_3, 3, 6);
fstring_part_escape!(c06_f_string_part_escape_4, 4, 7);

/// The error token: when no recogniser fires on a non-empty input, the span
/// `next_inner` reports must lie inside the input on character boundaries
/// (it is what `RotoReport` later slices the source with).
/// `next_token` is replaced by `next_token_declines` (see above); the code
/// under test is the real `next_inner`.
macro_rules! err_span {
    ($name:ident, $n:expr, $unwind:expr) => {
        #[cfg_attr(kani, kani::proof)]
        #[cfg_attr(kani, kani::unwind($unwind))]
        #[cfg_attr(kani, kani::stub(roto::parser::lexer::Lexer::next_token, next_token_declines))]
        pub fn $name() {
            let b: Bytes<$n> = Bytes::any();
            if let Some(s) = b.as_str() {
                let mut lx = Lexer::new(s);
                match lx.verif_next_inner() {
                    Some((r, span)) => {
                        assert!(r.is_err());
                        assert!(span.start < span.end, "empty error span");
                        assert!(span.end <= s.len(), "error span ends outside the input");
                        assert!(s.is_char_boundary(span.start), "error span starts inside a character");
                        assert!(s.is_char_boundary(span.end), "error span ends inside a character");
                        cover!(span.end - span.start > 1, "multi_byte_offender");
                    }
                    None => assert!(lx.verif_rest().is_empty()),
                }
            }
        }
    };
}
err_span!(c06_err_span_3, 3, 6);
err_span!(c06_err_span_4, 4, 7);

/// `Span::character_range` (byte span -> character range used to render a report): for every text of at most N
/// bytes and every span whose ends lie on character boundaries it does not panic and returns
/// (characters before start, characters before end).
macro_rules! char_range {
    ($name:ident, $n:expr, $unwind:expr) => {
        #[cfg_attr(kani, kani::proof)]
        #[cfg_attr(kani, kani::unwind($unwind))]
        pub fn $name() {
            let b: Bytes<$n> = Bytes::any();
            if let Some(s) = b.as_str() {
                let start: usize = crate::nd::any();
                let end: usize = crate::nd::any();
                assume(start <= end && end <= s.len());
                assume(s.is_char_boundary(start) && s.is_char_boundary(end));
                let r = roto::verif_api::Span { file: 0, start, end }.character_range(s);
                // reference: count the non-continuation bytes
                let by = s.as_bytes();
                let (mut cs, mut ce, mut i) = (0usize, 0usize, 0usize);
                while i < by.len() {
                    if (by[i] & 0xC0) != 0x80 {
                        if i < start {
                            cs += 1;
                        }
                        if i < end {
                            ce += 1;
                        }
                    }
                    i += 1;
                }
                assert!(r.start == cs && r.end == ce, "character range differs from the character counts");
                cover!(end - start > r.end - r.start, "multi_byte_inside_span");
                cover!(start > r.start, "multi_byte_before_span");
            }
        }
    };
}
char_range!(c06_char_range_2, 2, 5);
char_range!(c06_char_range_3, 3, 6);
char_range!(c06_char_range_4, 4, 7);

crate::list![
    c06_parser_next_3,
    c06_parser_next_4,
    c06_shebang_3,
    c06_shebang_4,
    c06_char_range_2,
    c06_char_range_3,
    c06_char_range_4,
    c06_ipv6_3,
    c06_ipv4_3,
    c06_two_char_3,
    c06_one_char_3,
    c06_as_number_3,
    c06_hex_number_3,
    c06_number_3,
    c06_f_string_3,
    c06_string_3,
    c06_char_3,
    c06_keyword_or_ident_3,
    c06_ipv6_4,
    c06_ipv4_4,
    c06_as_number_4,
    c06_hex_number_4,
    c06_number_4,
    c06_string_4,
    c06_char_4,
    c06_keyword_or_ident_4,
    c06_number_ascii_5,
    c06_ipv4_ascii_5,
    c06_skip_whitespace_2,
    c06_skip_whitespace_3,
    c06_skip_whitespace_4,
    c06_f_string_part_3,
    c06_f_string_part_4,
    c06_f_string_part_escape_3,
    c06_f_string_part_escape_4,
    c06_err_span_3,
    c06_err_span_4,
];
