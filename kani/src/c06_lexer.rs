crate::list![];
