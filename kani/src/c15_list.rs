//! C15 (hand-written part): growth across the first reallocation, capacity
//! arithmetic, zero-sized and drop-tracked element types, `==` termination.
//! The enumerated operation-kind sequences are in `c15_list_gen.rs`.
use crate::cover;
use crate::nd::{any, assume};
use roto::verif_api::list_verif;
use roto::{List, Val};

/// `compute_capacity(size, required)`: enough room, the documented minimum,
/// a power of two otherwise, and monotone in `required`.
#[cfg_attr(kani, kani::proof)]
pub fn c15_compute_capacity() {
    let size: usize = any();
    let r1: usize = any();
    let r2: usize = any();
    assume(size >= 1 && size <= 1 << 20);
    assume(r1 <= 1 << 40 && r2 <= 1 << 40 && r1 <= r2);
    let c1 = list_verif::compute_capacity(size, r1);
    let c2 = list_verif::compute_capacity(size, r2);
    let min = if size == 1 { 8 } else if size <= 1024 { 4 } else { 1 };
    if r1 == 0 {
        assert!(c1 == 0);
    } else {
        assert!(c1 >= r1, "capacity smaller than required");
        assert!(c1 >= min, "below documented minimum");
        assert!(c1 == min || c1.is_power_of_two());
        assert!(c1 == min || c1 < 2 * r1, "more than doubling");
    }
    assert!(c1 <= c2, "not monotone");
    cover!(r1 > 0 && c1 > min, "beyond_minimum");
}

/// Pushes across the first growth boundary (u64: minimum capacity 4 -> 8):
/// every element survives the reallocation.
#[cfg_attr(kani, kani::proof)]
#[cfg_attr(kani, kani::stub(std::sync::Mutex::lock, crate::stubs::mutex_lock_stub))]
#[cfg_attr(kani, kani::unwind(8))]
pub fn c15_growth_u64() {
    let a: List<u64> = List::new();
    let v: [u64; 5] = any();
    let mut i = 0;
    while i < 5 {
        a.push(v[i]);
        i += 1;
    }
    let k: usize = any();
    assume(k <= 5);
    let g = a.get(k);
    if k < 5 {
        assert!(g == Some(v[k]), "element lost or changed by growth");
    } else {
        assert!(g.is_none());
    }
    assert!(a.len() == 5 && a.capacity() >= 5);
    cover!(a.capacity() > 4, "reallocated");
    std::mem::forget(a);
}

/// u8: minimum capacity 8 -> 16 on the ninth push.
#[cfg_attr(kani, kani::proof)]
#[cfg_attr(kani, kani::stub(std::sync::Mutex::lock, crate::stubs::mutex_lock_stub))]
#[cfg_attr(kani, kani::unwind(12))]
pub fn c15_growth_u8() {
    let a: List<u8> = List::new();
    let v: [u8; 9] = any();
    let mut i = 0;
    while i < 9 {
        a.push(v[i]);
        i += 1;
    }
    let k: usize = any();
    assume(k <= 9);
    let g = a.get(k);
    if k < 9 {
        assert!(g == Some(v[k]), "element lost or changed by growth");
    } else {
        assert!(g.is_none());
    }
    cover!(a.capacity() > 8, "reallocated");
    std::mem::forget(a);
}

#[derive(Clone, PartialEq, Default, Copy)]
pub struct Zst;

/// Zero-sized element type: no allocation, capacity usize::MAX, length counts.
#[cfg_attr(kani, kani::proof)]
#[cfg_attr(kani, kani::stub(std::sync::Mutex::lock, crate::stubs::mutex_lock_stub))]
#[cfg_attr(kani, kani::unwind(6))]
#[cfg_attr(kani, kani::stub(core::ptr::swap_nonoverlapping, crate::stubs::swap_nonoverlapping_stub))]
pub fn c15_zst_list() {
    let a: List<Val<Zst>> = List::new();
    let b = a.clone();
    let n: usize = any();
    assume(n <= 3);
    let mut i = 0;
    while i < n {
        if i % 2 == 0 { a.push(Val(Zst)) } else { b.push(Val(Zst)) };
        i += 1;
    }
    assert!(a.len() == n && b.len() == n);
    assert!(a.capacity() == usize::MAX);
    let k: usize = any();
    assume(k <= 4 || k == usize::MAX);
    assert!(a.get(k).is_some() == (k < n));
    b.swap(0, 1);
    b.swap(0, 7);
    assert!(a.len() == n);
    cover!(n == 3, "three_elements");
    std::mem::forget(a);
    std::mem::forget(b);
}

static mut LIVE: i64 = 0;
static mut CLONES: u64 = 0;

/// 24-byte element type whose clones and drops are counted
#[derive(PartialEq)]
pub struct Tracked {
    id: u64,
    pad: [u64; 2],
}
impl Tracked {
    fn new(id: u64) -> Self {
        unsafe { LIVE += 1 };
        Tracked { id, pad: [id ^ 0x55, !id] }
    }
}
impl Clone for Tracked {
    fn clone(&self) -> Self {
        unsafe {
            LIVE += 1;
            CLONES += 1;
        }
        Tracked { id: self.id, pad: self.pad }
    }
}
impl Drop for Tracked {
    fn drop(&mut self) {
        unsafe { LIVE -= 1 };
    }
}

/// Drop-tracked 24-byte elements: `get` clones, handles share the storage,
/// and when the last handle goes every element is dropped exactly once.
#[cfg_attr(kani, kani::proof)]
#[cfg_attr(kani, kani::stub(std::sync::Mutex::lock, crate::stubs::mutex_lock_stub))]
#[cfg_attr(kani, kani::unwind(26))]
#[cfg_attr(kani, kani::stub(core::ptr::swap_nonoverlapping, crate::stubs::swap_nonoverlapping_stub))]
pub fn c15_tracked_balance() {
    unsafe {
        LIVE = 0;
        CLONES = 0;
    }
    let x: u64 = any();
    let y: u64 = any();
    {
        let a: List<Val<Tracked>> = List::new();
        let b = a.clone();
        a.push(Val(Tracked::new(x)));
        b.push(Val(Tracked::new(y)));
        assert!(unsafe { LIVE } == 2);
        let k: usize = any();
        assume(k <= 2);
        let g = a.get(k);
        match &g {
            Some(t) => {
                assert!(t.id == if k == 0 { x } else { y });
                assert!(t.pad[0] == t.id ^ 0x55 && t.pad[1] == !t.id, "element bytes torn");
                assert!(unsafe { LIVE } == 3, "get must clone exactly once");
            }
            None => assert!(k == 2 && unsafe { LIVE } == 2),
        }
        b.swap(0, 1);
        assert!(unsafe { LIVE } == if g.is_some() { 3 } else { 2 }, "swap must not clone or drop");
        drop(g);
        drop(a);
        assert!(unsafe { LIVE } == 2, "dropping one handle must not drop elements");
        let h = b.get(0);
        assert!(h.as_ref().map(|t| t.id) == Some(y), "swap not visible through the other handle");
        drop(h);
    }
    assert!(unsafe { LIVE } == 0, "elements leaked or double-dropped when the last handle went");
    cover!(unsafe { CLONES } == 2, "both_gets_cloned");
}

/// Script-side `contains` / `index` take their item by value (`ErasedList::contains_owned` / `index_owned`): whatever
/// the list holds - nothing ($n = 0) or one element - the item is released exactly once and the answer is the
/// shared-vector one (sixth seeding round: an early return for the empty list skipped the release).
macro_rules! contains_owned {
    ($name:ident, $n:expr, $unwind:expr) => {
        #[cfg_attr(kani, kani::proof)]
        #[cfg_attr(kani, kani::stub(std::sync::Mutex::lock, crate::stubs::mutex_lock_stub))]
        #[cfg_attr(kani, kani::unwind($unwind))]
        pub fn $name() {
            unsafe {
                LIVE = 0;
                CLONES = 0;
            }
            let x: u64 = any();
            let y: u64 = any();
            let a: List<Val<Tracked>> = List::new();
            if $n == 1 {
                a.push(Val(Tracked::new(y)));
            }
            let live0 = unsafe { LIVE };
            let r = list_verif::contains_owned(&a, Val(Tracked::new(x)));
            assert!(unsafe { LIVE } == live0, "contains must release the item it was given exactly once");
            assert!(r == ($n == 1 && x == y), "contains answer");
            let i = list_verif::index_owned(&a, Val(Tracked::new(x)));
            assert!(unsafe { LIVE } == live0, "index must release the item it was given exactly once");
            assert!(i == if $n == 1 && x == y { Some(0) } else { None }, "index answer");
            cover!(true, "reached_end");
            std::mem::forget(a);
        }
    };
}
contains_owned!(c15_contains_owned_empty, 0, 4);
// the derived `==` of the 24-byte element compares its 16-byte array with memcmp
contains_owned!(c15_contains_owned_one, 1, 18);

/// `a == b` on two distinct lists terminates with the element-wise answer
/// (Rust API `List::eq`).
#[cfg_attr(kani, kani::proof)]
#[cfg_attr(kani, kani::stub(std::sync::Mutex::lock, crate::stubs::mutex_lock_stub))]
#[cfg_attr(kani, kani::unwind(4))]
pub fn c15_eq_distinct_rust() {
    let a: List<u8> = List::new();
    let b: List<u8> = List::new();
    let x: u8 = any();
    let y: u8 = any();
    a.push(x);
    b.push(y);
    let r = a == b;
    assert!(r == (x == y), "== on distinct lists gives the wrong answer");
    cover!(r, "equal");
    cover!(!r, "different");
    std::mem::forget(a);
    std::mem::forget(b);
}

/// `a == b` (Rust API) on two distinct lists of 0..=2 elements each, lengths and elements symbolic: true exactly when
/// the lengths agree and the elements agree pairwise - in particular false when one list is a proper prefix of the
/// other, in either direction.
#[cfg_attr(kani, kani::proof)]
#[cfg_attr(kani, kani::stub(std::sync::Mutex::lock, crate::stubs::mutex_lock_stub))]
#[cfg_attr(kani, kani::unwind(5))]
pub fn c15_eq_rust_lengths() {
    let a: List<u8> = List::new();
    let b: List<u8> = List::new();
    let xs: [u8; 2] = any();
    let ys: [u8; 2] = any();
    let na: usize = any();
    let nb: usize = any();
    assume(na <= 2 && nb <= 2);
    if na >= 1 {
        a.push(xs[0]);
    }
    if na >= 2 {
        a.push(xs[1]);
    }
    if nb >= 1 {
        b.push(ys[0]);
    }
    if nb >= 2 {
        b.push(ys[1]);
    }
    let r = a == b;
    let want = na == nb && (na < 1 || xs[0] == ys[0]) && (na < 2 || xs[1] == ys[1]);
    assert!(r == want, "== on distinct lists gives the wrong answer");
    cover!(r && na == 2, "equal_two_elements");
    cover!(!r && na < nb && (na < 1 || xs[0] == ys[0]), "proper_prefix_is_not_equal");
    cover!(!r && nb < na && (nb < 1 || xs[0] == ys[0]), "proper_extension_is_not_equal");
    std::mem::forget(a);
    std::mem::forget(b);
}

/// same list through two handles: equal without locking twice
#[cfg_attr(kani, kani::proof)]
#[cfg_attr(kani, kani::stub(std::sync::Mutex::lock, crate::stubs::mutex_lock_stub))]
#[cfg_attr(kani, kani::unwind(4))]
pub fn c15_eq_alias() {
    let a: List<u64> = List::new();
    let b = a.clone();
    a.push(any());
    assert!(a == b);
    assert!(list_verif::erased_eq(&a, &b));
    cover!(true, "reached_end");
    std::mem::forget(a);
    std::mem::forget(b);
}

/// lengths differ -> not equal (script-side `==`, ErasedList::eq; no element
/// comparison through the vtable is needed on this path)
#[cfg_attr(kani, kani::proof)]
#[cfg_attr(kani, kani::stub(std::sync::Mutex::lock, crate::stubs::mutex_lock_stub))]
#[cfg_attr(kani, kani::unwind(4))]
pub fn c15_eq_distinct_erased_len() {
    let a: List<u8> = List::new();
    let b: List<u8> = List::new();
    a.push(any());
    let r = list_verif::erased_eq(&a, &b);
    assert!(!r);
    let r2 = list_verif::erased_eq(&b, &b.clone());
    assert!(r2);
    cover!(true, "reached_end");
    std::mem::forget(a);
    std::mem::forget(b);
}

/// script-side get (`ffi::list_get`) on one list: writes Some(tag 0)+payload
/// at the aligned offset for an in-range index, None (tag 1) otherwise,
/// including indices that do not fit usize.
#[cfg_attr(kani, kani::proof)]
#[cfg_attr(kani, kani::stub(std::sync::Mutex::lock, crate::stubs::mutex_lock_stub))]
#[cfg_attr(kani, kani::unwind(6))]
pub fn c15_ffi_list_get_u32() {
    let a: List<u32> = List::new();
    let x: u32 = any();
    let y: u32 = any();
    a.push(x);
    a.push(y);
    let mut out = [0xAAu8; 8];
    let i: u64 = any();
    assume(i <= 3 || i == u64::MAX);
    // SAFETY: out is 8 bytes, 4-aligned enough for RotoOption<u32> (align 4): use an aligned buffer
    let mut slot = std::mem::MaybeUninit::<roto::verif_api::RotoOption<u32>>::uninit();
    unsafe { list_verif::list_get(slot.as_mut_ptr() as *mut u8, &a, i) };
    let p = slot.as_ptr() as *const u8;
    unsafe {
        if i < 2 {
            assert!(*p == 0, "in-range get must be Some");
            let v = std::ptr::read(p.add(4) as *const u32);
            assert!(v == if i == 0 { x } else { y }, "wrong payload");
        } else {
            assert!(*p == 1, "out-of-range get must be None");
        }
    }
    out[0] = 0;
    cover!(i < 2, "some");
    cover!(i >= 2, "none");
    std::mem::forget(a);
}

/// `a.concat(&b)` on two distinct lists: the result holds a's then b's elements, the operands are unchanged,
/// and the result is a NEW storage (a later push through it is not visible through the operands).
#[cfg_attr(kani, kani::proof)]
#[cfg_attr(kani, kani::unwind(6))]
#[cfg_attr(kani, kani::stub(std::sync::Mutex::lock, crate::stubs::mutex_lock_stub))]
pub fn c15_concat_distinct() {
    let a: List<u64> = List::new();
    let b: List<u64> = List::new();
    let x: u64 = any();
    let y: u64 = any();
    let na: usize = any();
    assume(na <= 1);
    if na == 1 {
        a.push(x);
    }
    b.push(y);
    let c = a.concat(&b);
    assert!(a.len() == na && b.len() == 1, "concat changed an operand");
    assert!(c.len() == na + 1, "concat length");
    assert!(c.get(na) == Some(y), "concat content");
    if na == 1 {
        assert!(c.get(0) == Some(x), "concat content");
    }
    assert!(c.capacity() >= c.len(), "capacity < len after concat");
    let z: u64 = any();
    c.push(z);
    assert!(b.len() == 1 && a.len() == na, "push through the concatenation is visible through an operand (aliased storage)");
    assert!(c.len() == na + 2);
    cover!(na == 0, "empty_first_operand");
    cover!(na == 1, "non_empty_first_operand");
    std::mem::forget(a);
    std::mem::forget(b);
    std::mem::forget(c);
}

/// `a.concat(&b)` with an EMPTY right operand (and with an empty left one): the result equals the non-empty operand
/// but is a new storage - a push through it is not visible through either operand. (The general two-list
/// concatenation exceeds the CBMC budget; the empty-operand cases are the ones a "nothing to append" shortcut touches.)
macro_rules! concat_empty {
    ($name:ident, $left_empty:expr) => {
        #[cfg_attr(kani, kani::proof)]
        #[cfg_attr(kani, kani::unwind(6))]
        #[cfg_attr(kani, kani::stub(std::sync::Mutex::lock, crate::stubs::mutex_lock_stub))]
        pub fn $name() {
            let full: List<u64> = List::new();
            let empty: List<u64> = List::new();
            let x: u64 = any();
            full.push(x);
            let c = if $left_empty { empty.concat(&full) } else { full.concat(&empty) };
            assert!(c.len() == 1 && c.get(0) == Some(x), "concat with an empty operand is not the other operand's content");
            let z: u64 = any();
            c.push(z);
            assert!(c.len() == 2 && c.get(1) == Some(z));
            assert!(full.len() == 1 && empty.len() == 0, "push through the concatenation is visible through an operand (aliased storage)");
            cover!(true, "reached_end");
            std::mem::forget(full);
            std::mem::forget(empty);
            std::mem::forget(c);
        }
    };
}
concat_empty!(c15_concat_empty_right, false);
concat_empty!(c15_concat_empty_left, true);

/// A list whose element type has a niche-optimised Rust layout smaller than its boundary representation
/// (`Option<bool>`: 1 byte in Rust, 2 bytes as `RotoOption<bool>`), built through the Rust API: three pushes, then
/// every element reads back as pushed (strides must be those of the stored representation).
#[cfg_attr(kani, kani::proof)]
#[cfg_attr(kani, kani::unwind(6))]
#[cfg_attr(kani, kani::stub(std::sync::Mutex::lock, crate::stubs::mutex_lock_stub))]
pub fn c15_option_bool_elements() {
    let l: List<Option<bool>> = List::new();
    let v: [Option<bool>; 3] = [any_opt_bool(), any_opt_bool(), any_opt_bool()];
    l.push(v[0]);
    l.push(v[1]);
    l.push(v[2]);
    let i: usize = any();
    assume(i <= 3);
    let g = l.get(i);
    if i < 3 {
        assert!(g == Some(v[i]), "element read back differs from the element pushed");
    } else {
        assert!(g.is_none());
    }
    cover!(i == 0 && v[0] == Some(true) && v[1] == Some(true) && v[2].is_none(), "the_documented_example");
    std::mem::forget(l);
}

fn any_opt_bool() -> Option<bool> {
    let k: u8 = any();
    assume(k < 3);
    match k {
        0 => None,
        1 => Some(false),
        _ => Some(true),
    }
}

/// concat that has to grow the result beyond one doubling: elements larger than 1024 bytes start at capacity 1,
/// so [e1] ++ [e2, e3] needs 3 slots after a first allocation of 1.
#[cfg_attr(kani, kani::proof)]
#[cfg_attr(kani, kani::unwind(6))]
#[cfg_attr(kani, kani::stub(std::sync::Mutex::lock, crate::stubs::mutex_lock_stub))]
pub fn c15_concat_growth_big() {
    use crate::c16_sched::Big;
    let a: List<Val<Big>> = List::new();
    let b: List<Val<Big>> = List::new();
    let x: u64 = any();
    let mut e = Big([0; 129]);
    e.0[128] = x;
    a.push(Val(e));
    e.0[128] = !x;
    b.push(Val(e));
    e.0[128] = x ^ 5;
    b.push(Val(e));
    let c = a.concat(&b);
    assert!(c.len() == 3 && c.capacity() >= 3, "capacity < len after concat");
    match c.get(2) {
        Some(v) => assert!(v.0.0[128] == x ^ 5, "last element of the concatenation"),
        None => assert!(false),
    }
    cover!(true, "reached_end");
    std::mem::forget(a);
    std::mem::forget(b);
    std::mem::forget(c);
}

crate::list![
    c15_concat_empty_right,
    c15_concat_empty_left,
    c15_option_bool_elements,
    c15_eq_rust_lengths,
    c15_concat_distinct,
    c15_concat_growth_big,
    c15_compute_capacity,
    c15_growth_u64,
    c15_growth_u8,
    c15_zst_list,
    c15_tracked_balance,
    c15_eq_distinct_rust,
    c15_eq_alias,
    c15_eq_distinct_erased_len,
    c15_ffi_list_get_u32,
    c15_contains_owned_empty,
    c15_contains_owned_one,
];
