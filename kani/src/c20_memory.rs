//! C20 (K part): the evaluator's checked memory model (`lir::eval::Memory`)
//! round-trips every in-bounds aligned access and panics ("stops loudly") on
//! out-of-bounds, misaligned and popped-frame accesses - it never completes
//! such an access with some value.
use crate::cover;
use crate::nd::{any, assume};
use roto::verif_api::Memory;

fn any_width() -> usize {
    let k: u8 = any();
    assume(k < 4);
    1usize << k
}

/// For every allocation size <= 16, offset <= 17 and access width in
/// {1,2,4,8}: an access is accepted iff it is in bounds and aligned (the
/// documented rule), and an accepted write is what a following read returns,
/// without disturbing a neighbouring allocation.
#[cfg_attr(kani, kani::proof)]
#[cfg_attr(kani, kani::unwind(18))]
pub fn c20_memory_write_read() {
    let size: usize = any();
    assume(size <= 16);
    let off: usize = any();
    assume(off <= 17);
    let w = any_width();
    let mut mem = Memory::new();
    let guard = mem.allocate(8);
    mem.write(guard, &[0xEE; 8]);
    let p = mem.allocate(size);
    let q = mem.verif_offset_by(p, off);
    let data: [u8; 8] = any();
    let ok = off + w <= size && off % w == 0;
    // the harness only performs accesses the documented rule accepts; the rejected ones are c20_memory_rejects
    assume(ok);
    mem.write(q, &data[..w]);
    let r = mem.read_slice(q, w);
    let mut k = 0;
    while k < w {
        assert!(r[k] == data[k], "read does not return what was written");
        k += 1;
    }
    let g: [u8; 8] = mem.read_array(guard);
    assert!(g == [0xEE; 8], "write leaked into another allocation");
    cover!(off > 0 && w == 8, "offset_8_byte_access");
    std::mem::forget(mem);
}

/// Offsets accumulate: a pointer obtained by offsetting twice (what the generated clone/drop/eq helpers of nested
/// aggregates do with a pointer into a value) addresses the byte at the sum of the offsets.
#[cfg_attr(kani, kani::proof)]
#[cfg_attr(kani, kani::unwind(18))]
pub fn c20_memory_offset_twice() {
    let off1: usize = any();
    let off2: usize = any();
    assume(off1 <= 15 && off2 <= 15 && off1 + off2 <= 15);
    let mut mem = Memory::new();
    let p = mem.allocate(16);
    let q1 = mem.verif_offset_by(p, off1);
    let q2 = mem.verif_offset_by(q1, off2);
    let direct = mem.verif_offset_by(p, off1 + off2);
    let v: u8 = any();
    assume(v != 0);
    mem.write(q2, &[v]);
    let r = mem.read_slice(direct, 1);
    assert!(r[0] == v, "a write through a twice-offset pointer is not at the sum of the offsets");
    let whole: [u8; 16] = mem.read_array(p);
    let mut k = 0;
    while k < 16 {
        assert!(whole[k] == if k == off1 + off2 { v } else { 0 }, "the write landed somewhere else");
        k += 1;
    }
    cover!(off1 > 0 && off2 > 0, "both_offsets_non_zero");
    std::mem::forget(mem);
}

/// Contrapositive of "invalid accesses stop loudly": whenever a write or read
/// *completes*, it was in bounds and aligned. The evaluator's own
/// `assert!`s firing for invalid inputs are the expected loud stops (the
/// runner ignores failed checks whose text is one of its messages); the only
/// check that counts is the harness's "invalid access completed".
#[cfg_attr(kani, kani::proof)]
#[cfg_attr(kani, kani::unwind(18))]
pub fn c20_memory_rejects() {
    let size: usize = any();
    assume(size <= 16);
    let off: usize = any();
    assume(off <= 17);
    let w = any_width();
    let mut mem = Memory::new();
    let p = mem.allocate(size);
    let q = mem.verif_offset_by(p, off);
    let data: [u8; 8] = any();
    let ok = off + w <= size && off % w == 0;
    let do_write: bool = any();
    if do_write {
        mem.write(q, &data[..w]);
    } else {
        let _ = mem.read_slice(q, w);
    }
    assert!(ok, "MUST-STOP: an out-of-bounds or misaligned access completed");
    cover!(ok, "valid_access_completes");
    std::mem::forget(mem);
}

/// A pointer into a popped stack frame must not be usable once another frame
/// has taken its place (frame ids differ): the access stops loudly.
#[cfg_attr(kani, kani::proof)]
#[cfg_attr(kani, kani::unwind(10))]
#[cfg_attr(kani, kani::stub(core::panicking::assert_failed, crate::stubs::assert_failed_stub))]
pub fn c20_memory_dangling_frame() {
    let mut mem = Memory::new();
    mem.verif_push_frame();
    let p = mem.allocate(8);
    mem.write(p, &[1; 8]);
    assert!(mem.verif_pop_frame());
    mem.verif_push_frame();
    let _q = mem.allocate(8);
    let read: bool = any();
    cover!(true, "reached_the_dangling_access");
    if read {
        let _ = mem.read_slice(p, 8);
    } else {
        mem.write(p, &[2; 8]);
    }
    assert!(false, "MUST-STOP: access through a pointer into a popped frame completed");
}

crate::list![c20_memory_write_read, c20_memory_rejects, c20_memory_dangling_frame, c20_memory_offset_twice];
