//! C17 / C10 (string views): the byte- and line-indexed string views return
//! exactly what their documentation says for EVERY string of at most N bytes
//! and every index in {0..len+1} ∪ {usize::MAX}, and never panic.
//! The reference results are computed by explicit byte loops in the harness.
use crate::cover;
use crate::nd::{any, assume, Bytes};
use roto::RotoString;

fn any_index(max: usize) -> usize {
    let i: usize = any();
    assume(i <= max || i == usize::MAX);
    i
}

/// byte offset `i` is on a character boundary of `b` (UTF-8 continuation bytes are 10xxxxxx)
fn boundary(b: &[u8], i: usize) -> bool {
    i == b.len() || (i < b.len() && (b[i] & 0xC0) != 0x80)
}

macro_rules! bytes_view {
    ($name:ident, $n:expr, $unwind:expr) => {
        #[cfg_attr(kani, kani::proof)]
        #[cfg_attr(kani, kani::unwind($unwind))]
        pub fn $name() {
            let b: Bytes<$n> = Bytes::any();
            if let Some(s) = b.as_str() {
                let by = b.bytes();
                let v = RotoString::from(s).bytes();
                assert!(v.len() == by.len(), "byte length");
                let i = any_index($n + 1);
                // get: the character starting at byte offset i; None if out of range or mid-character
                let g = v.get(i);
                if i < by.len() && boundary(by, i) {
                    match g {
                        Some(c) => {
                            let w = c.len_utf8();
                            assert!(i + w <= by.len());
                            let mut buf = [0u8; 4];
                            let enc = c.encode_utf8(&mut buf).as_bytes();
                            let mut k = 0;
                            while k < w {
                                assert!(enc[k] == by[i + k], "get returned a different character");
                                k += 1;
                            }
                            cover!(w > 1, "multi_byte_char");
                        }
                        None => assert!(false, "get on a character boundary must return the character"),
                    }
                } else {
                    assert!(g.is_none(), "get out of range / inside a character must be None");
                    cover!(i < by.len(), "mid_character");
                }
                // slice(i, j)
                let j = any_index($n + 1);
                let sl = v.slice(i, j);
                let valid = i <= j && j <= by.len() && boundary(by, i) && boundary(by, j);
                match sl {
                    Some(t) => {
                        assert!(valid, "slice returned Some for an invalid range");
                        let tb = t.as_bytes();
                        assert!(tb.len() == j - i, "slice length");
                        let mut k = 0;
                        while k < tb.len() {
                            assert!(tb[k] == by[i + k], "slice content");
                            k += 1;
                        }
                        cover!(j > i, "non_empty_slice");
                    }
                    None => assert!(!valid, "slice returned None for a valid range"),
                }
            }
        }
    };
}
bytes_view!(c17_bytes_view_2, 2, 5);

/// byte view `len` and `get` only (every UTF-8 string <= 3 bytes)
#[cfg_attr(kani, kani::proof)]
#[cfg_attr(kani, kani::unwind(6))]
pub fn c17_bytes_get_3() {
    let b: Bytes<3> = Bytes::any();
    if let Some(s) = b.as_str() {
        let by = b.bytes();
        let v = RotoString::from(s).bytes();
        assert!(v.len() == by.len(), "byte length");
        let i = any_index(4);
        let g = v.get(i);
        if i < by.len() && boundary(by, i) {
            match g {
                Some(c) => {
                    let mut buf = [0u8; 4];
                    let enc = c.encode_utf8(&mut buf).as_bytes();
                    assert!(i + enc.len() <= by.len());
                    let mut k = 0;
                    while k < enc.len() {
                        assert!(enc[k] == by[i + k], "get returned a different character");
                        k += 1;
                    }
                    cover!(enc.len() == 3, "three_byte_char");
                }
                None => assert!(false, "get on a character boundary must return the character"),
            }
        } else {
            assert!(g.is_none(), "get out of range / inside a character must be None");
            cover!(i < by.len(), "mid_character");
        }
    }
}
bytes_view!(c17_bytes_view_3, 3, 6);

/// reference: start offsets of the lines of `b` (a line ends at '\n' or at the
/// end of the string; a trailing '\n' does not start a further line)
fn line_starts(b: &[u8], starts: &mut [usize; 8]) -> usize {
    let mut n = 0;
    let mut at_start = true;
    let mut i = 0;
    while i < b.len() {
        if at_start {
            starts[n] = i;
            n += 1;
            at_start = false;
        }
        if b[i] == b'\n' {
            at_start = true;
        }
        i += 1;
    }
    n
}

/// `StringLines::slice(i, j)`: lines i..j including their terminators;
/// None if out of range or i > j. (ASCII inputs.)
macro_rules! lines_slice {
    ($name:ident, $n:expr, $unwind:expr) => {
        #[cfg_attr(kani, kani::proof)]
        #[cfg_attr(kani, kani::unwind($unwind))]
        pub fn $name() {
            let b: Bytes<$n> = Bytes::any_ascii();
            let s = b.as_str().unwrap();
            let by = b.bytes();
            let mut starts = [0usize; 8];
            let nl = line_starts(by, &mut starts);
            let v = RotoString::from(s).lines();
            let i = any_index($n + 1);
            let j = any_index($n + 1);
            let got = v.slice(i, j);
            // documented: None if either index is out of bounds or i > j
            // an empty string has one (empty) line for slicing purposes (see the crate's own unit test)
            let count = if by.is_empty() || by[by.len() - 1] == b'\n' && false { nl.max(1) } else { nl };
            let count = if by.is_empty() { 1 } else { count };
            let valid = i <= j && j <= count;
            match got {
                Some(t) => {
                    assert!(valid, "lines.slice returned Some for an invalid range");
                    let from = if i < nl { starts[i] } else { by.len() };
                    let to = if j < nl { starts[j] } else { by.len() };
                    let tb = t.as_bytes();
                    assert!(tb.len() == to - from, "lines.slice length");
                    let mut k = 0;
                    while k < tb.len() {
                        assert!(tb[k] == by[from + k], "lines.slice content");
                        k += 1;
                    }
                    cover!(j > i && to > from, "non_empty");
                }
                None => assert!(!valid, "lines.slice returned None for a valid range"),
            }
        }
    };
}
lines_slice!(c17_lines_slice_2, 2, 6);
lines_slice!(c17_lines_slice_3, 3, 7);

/// `StringLines::get(n)` is documented as "Get the nth line in this string":
/// it must exist exactly when n < number of lines. (ASCII inputs.)
macro_rules! lines_get {
    ($name:ident, $n:expr, $unwind:expr) => {
        #[cfg_attr(kani, kani::proof)]
        #[cfg_attr(kani, kani::unwind($unwind))]
        pub fn $name() {
            let b: Bytes<$n> = Bytes::any_ascii();
            let s = b.as_str().unwrap();
            let by = b.bytes();
            let mut starts = [0usize; 8];
            let nl = line_starts(by, &mut starts);
            let v = RotoString::from(s).lines();
            let i = any_index($n + 1);
            let got = v.get(i);
            assert!(got.is_some() == (i < nl), "lines.get(n) exists iff n < number of lines");
            cover!(nl == 2, "two_lines");
        }
    };
}
lines_get!(c17_lines_get_2, 2, 6);

/// char view `slice(i, j)` and `get(i)` on ASCII strings (characters == bytes): Some(s[i..j]) iff i <= j <= len,
/// in particular None for an empty range that starts past the end; get(i) = i-th character or None.
macro_rules! chars_view_ascii {
    ($name:ident, $n:expr, $unwind:expr) => {
        #[cfg_attr(kani, kani::proof)]
        #[cfg_attr(kani, kani::unwind($unwind))]
        pub fn $name() {
            let b: Bytes<$n> = Bytes::any_ascii();
            if let Some(s) = b.as_str() {
                let by = b.bytes();
                let v = RotoString::from(s).chars();
                let i = any_index($n + 1);
                let j = any_index($n + 1);
                let sl = v.slice(i, j);
                let valid = i <= j && j <= by.len();
                match sl {
                    Some(t) => {
                        assert!(valid, "chars.slice returned Some for an invalid range");
                        let tb = t.as_bytes();
                        assert!(tb.len() == j - i, "chars.slice length");
                        let mut k = 0;
                        while k < tb.len() {
                            assert!(tb[k] == by[i + k], "chars.slice content");
                            k += 1;
                        }
                        cover!(j > i, "non_empty_slice");
                        cover!(j == i && i == by.len(), "empty_slice_at_end");
                    }
                    None => {
                        assert!(!valid, "chars.slice returned None for a valid range");
                        cover!(i == j, "empty_range_past_the_end");
                    }
                }
                let g = v.get(i);
                if i < by.len() {
                    assert!(g == Some(by[i] as char), "chars.get returned a different character");
                } else {
                    assert!(g.is_none(), "chars.get out of range must be None");
                }
            }
        }
    };
}
/// the smallest instance: `slice` only, every ASCII string of <= 2 bytes, 0 <= i, j <= 3
#[cfg_attr(kani, kani::proof)]
#[cfg_attr(kani, kani::unwind(6))]
pub fn c17_chars_slice_ascii_2() {
    let b: Bytes<2> = Bytes::any_ascii();
    if let Some(s) = b.as_str() {
        let n = b.bytes().len();
        let v = RotoString::from(s).chars();
        let i: usize = any();
        let j: usize = any();
        assume(i <= 3 && j <= 3);
        let sl = v.slice(i, j);
        let valid = i <= j && j <= n;
        assert!(sl.is_some() == valid, "chars.slice: Some exactly for i <= j <= number of characters");
        if let Some(t) = sl {
            assert!(t.as_bytes().len() == j - i, "chars.slice length");
            std::mem::forget(t);
        }
        cover!(valid && j > i, "non_empty_slice");
        cover!(!valid && i == j, "empty_range_past_the_end");
    }
}
chars_view_ascii!(c17_chars_view_ascii_2, 2, 6);
chars_view_ascii!(c17_chars_view_ascii_3, 3, 7);

crate::list![
    c17_chars_slice_ascii_2,
    c17_chars_view_ascii_2,
    c17_chars_view_ascii_3,
    c17_bytes_get_3,
    c17_bytes_view_2,
    c17_bytes_view_3,
    c17_lines_slice_2,
    c17_lines_slice_3,
    c17_lines_get_2,
    c17_stringbuf_seq,
];

/// `StringBuf` accumulates what was pushed: after every push (chars of 1-2 bytes, a string) `as_string` returns
/// exactly the bytes pushed so far, also when `as_string` was called before (no stale result) and when the push
/// went through another handle of the same buffer. Shape fixed (push_char, read, push_char via an alias, read);
/// the characters are symbolic (first below U+0800, second ASCII: three symbolic characters plus a
/// push_string exhausted 16 GB).
#[cfg_attr(kani, kani::proof)]
#[cfg_attr(kani, kani::stub(std::sync::Mutex::lock, crate::stubs::mutex_lock_stub))]
#[cfg_attr(kani, kani::unwind(10))]
pub fn c17_stringbuf_seq() {
    use roto::verif_api::StringBuf;
    fn any_char2() -> char {
        let x: u32 = any();
        assume(x < 0x800);
        match char::from_u32(x) {
            Some(c) => c,
            None => {
                assume(false);
                'a'
            }
        }
    }
    fn put(exp: &mut [u8; 8], n: &mut usize, c: char) {
        // UTF-8 of a scalar value below 0x800, written out (no loop over a symbolic length)
        let x = c as u32;
        if x < 0x80 {
            exp[*n] = x as u8;
            *n += 1;
        } else {
            exp[*n] = 0xC0 | (x >> 6) as u8;
            exp[*n + 1] = 0x80 | (x & 0x3F) as u8;
            *n += 2;
        }
    }
    fn check(b: &StringBuf, exp: &[u8; 8], n: usize) {
        let s = b.clone().as_string();
        let sb = s.as_bytes();
        assert!(sb.len() == n, "as_string length is the number of bytes pushed");
        let mut k = 0;
        while k < n {
            assert!(sb[k] == exp[k], "as_string content is what was pushed, in order");
            k += 1;
        }
    }
    let mut exp = [0u8; 8];
    let mut n = 0usize;
    let b = StringBuf::new();
    let c1 = 'a';
    let c2 = any_char2();
    assume((c2 as u32) < 0x80);
    b.clone().push_char(c1);
    put(&mut exp, &mut n, c1);
    check(&b, &exp, n);
    let alias = b.clone();
    alias.push_char(c2);
    put(&mut exp, &mut n, c2);
    check(&b, &exp, n);
    cover!(c2 == 'z', "some_char_pushed");
    cover!(true, "reached_end");
    std::mem::forget(b);
}
