//! C05 (K/mirror): the `#[repr(u8)]` mirror enums that carry Option / Result /
//! Verdict across the host boundary have the tag and payload exactly where
//! roto's own layout rule (`mir/ty.rs::layout_of` = union over variants of
//! `LayoutBuilder(u8 tag, fields…)`) puts them, in both directions, and
//! `untransform ∘ transform` is the identity — for every payload value.
//!
//! One harness per concrete instantiation (generic code; the list is the
//! bound): see `LIST` at the bottom.
use crate::cover;
use crate::nd::{any, Nd};
use roto::verif_api::{Layout, RotoOption, RotoResult};
use roto::{Val, Value, Verdict};
use std::mem::MaybeUninit;

/// bit-exact equality (floats by bit pattern, so NaNs count)
pub trait Same {
    fn same(&self, o: &Self) -> bool;
}
macro_rules! same_eq { ($($t:ty),*) => {$(impl Same for $t { fn same(&self, o: &Self) -> bool { self == o } })*}; }
same_eq!(u8, u16, u32, u64, i8, i16, i32, i64, bool, char, ());
impl Same for f32 {
    fn same(&self, o: &Self) -> bool {
        self.to_bits() == o.to_bits()
    }
}
impl Same for f64 {
    fn same(&self, o: &Self) -> bool {
        self.to_bits() == o.to_bits()
    }
}
impl<T: Same, const N: usize> Same for [T; N] {
    fn same(&self, o: &Self) -> bool {
        let mut i = 0;
        while i < N {
            if !self[i].same(&o[i]) {
                return false;
            }
            i += 1;
        }
        true
    }
}
impl<T: Same> Same for Val<T> {
    fn same(&self, o: &Self) -> bool {
        self.0.same(&o.0)
    }
}
impl<T: Nd> Nd for Val<T> {
    fn nd() -> Self {
        Val(T::nd())
    }
}
impl<T: Same> Same for Option<T> {
    fn same(&self, o: &Self) -> bool {
        match (self, o) {
            (Some(a), Some(b)) => a.same(b),
            (None, None) => true,
            _ => false,
        }
    }
}
impl<T: Same, E: Same> Same for Result<T, E> {
    fn same(&self, o: &Self) -> bool {
        match (self, o) {
            (Ok(a), Ok(b)) => a.same(b),
            (Err(a), Err(b)) => a.same(b),
            _ => false,
        }
    }
}
impl<T: Same, E: Same> Same for Verdict<T, E> {
    fn same(&self, o: &Self) -> bool {
        match (self, o) {
            (Verdict::Accept(a), Verdict::Accept(b)) => a.same(b),
            (Verdict::Reject(a), Verdict::Reject(b)) => a.same(b),
            _ => false,
        }
    }
}
impl<T: Nd, E: Nd> Nd for Verdict<T, E> {
    fn nd() -> Self {
        if bool::nd() { Verdict::Accept(T::nd()) } else { Verdict::Reject(E::nd()) }
    }
}
impl<T: Same> Same for RotoOption<T> {
    fn same(&self, o: &Self) -> bool {
        match (self, o) {
            (RotoOption::Some(a), RotoOption::Some(b)) => a.same(b),
            (RotoOption::None, RotoOption::None) => true,
            _ => false,
        }
    }
}
impl<T: Same, E: Same> Same for RotoResult<T, E> {
    fn same(&self, o: &Self) -> bool {
        match (self, o) {
            (RotoResult::Ok(a), RotoResult::Ok(b)) => a.same(b),
            (RotoResult::Err(a), RotoResult::Err(b)) => a.same(b),
            _ => false,
        }
    }
}

/// roto's layout of a two-variant enum whose variants carry at most one field
fn enum_layout(v0: Option<Layout>, v1: Option<Layout>) -> Layout {
    let tag = Layout::of::<u8>();
    let mk = |f: Option<Layout>| match f {
        Some(f) => Layout::concat([tag.clone(), f]),
        None => Layout::concat([tag.clone()]),
    };
    mk(v0).union(&mk(v1))
}

/// Checks on a transformed two-variant value `t` (type M) whose variant `k`
/// carries `payload`:
///  * size / alignment of the mirror = roto's enum layout
///  * tag byte at offset 0 equals `k`
///  * payload bytes sit at roto's payload offset
///  * a value written the way generated code writes it (tag byte, payload at
///    roto's offset into uninitialised storage) reads back as the same mirror
fn check_mirror<M: Same, P: Same + Clone>(
    t: &M,
    k: u8,
    payload: Option<&P>,
    lay: &Layout,
) {
    assert!(lay.size() == std::mem::size_of::<M>(), "mirror size differs from roto layout");
    assert!(lay.align() == std::mem::align_of::<M>(), "mirror alignment differs from roto layout");
    let p = t as *const M as *const u8;
    // SAFETY: M is a repr(u8) enum, byte 0 is its tag
    unsafe { assert!(*p == k, "tag byte") };
    let mut slot = MaybeUninit::<M>::uninit();
    let q = slot.as_mut_ptr() as *mut u8;
    unsafe { q.write(k) };
    if let Some(x) = payload {
        let off = Layout::of::<P>().offset_by(1);
        assert!(off + std::mem::size_of::<P>() <= std::mem::size_of::<M>());
        // SAFETY: in bounds per the assertion above
        let got = unsafe { std::ptr::read_unaligned(p.add(off) as *const P) };
        assert!(got.same(x), "payload not at roto's offset");
        unsafe { std::ptr::write_unaligned(q.add(off) as *mut P, x.clone()) };
    }
    // SAFETY: tag and (if any) payload of variant k have been written
    let back = unsafe { slot.assume_init() };
    assert!(back.same(t), "value written at roto's offsets is read differently by Rust");
    std::mem::forget(back);
}

macro_rules! mirror_option {
    ($name:ident, $t:ty) => {
        #[cfg_attr(kani, kani::proof)]
        pub fn $name() {
            type T = $t;
            type TT = <T as Value>::Transformed;
            let v: Option<T> = any();
            let t = <Option<T> as Value>::transform(v.clone());
            let lay = enum_layout(Some(Layout::of::<TT>()), None);
            match &v {
                Some(x) => {
                    let xt = <T as Value>::transform(x.clone());
                    check_mirror::<RotoOption<TT>, TT>(&t, 0, Some(&xt), &lay);
                    cover!(true, "some");
                }
                None => {
                    check_mirror::<RotoOption<TT>, TT>(&t, 1, None, &lay);
                    cover!(true, "none");
                }
            }
            let back = <Option<T> as Value>::untransform(t);
            assert!(back.same(&v), "untransform(transform(v)) != v");
        }
    };
}

macro_rules! mirror_result {
    ($name:ident, $a:ty, $b:ty) => {
        #[cfg_attr(kani, kani::proof)]
        pub fn $name() {
            type A = $a;
            type B = $b;
            type AT = <A as Value>::Transformed;
            type BT = <B as Value>::Transformed;
            let v: Result<A, B> = any();
            let t = <Result<A, B> as Value>::transform(v.clone());
            let lay = enum_layout(Some(Layout::of::<AT>()), Some(Layout::of::<BT>()));
            match &v {
                Ok(x) => {
                    let xt = <A as Value>::transform(x.clone());
                    check_mirror::<RotoResult<AT, BT>, AT>(&t, 0, Some(&xt), &lay);
                    cover!(true, "ok");
                }
                Err(x) => {
                    let xt = <B as Value>::transform(x.clone());
                    check_mirror::<RotoResult<AT, BT>, BT>(&t, 1, Some(&xt), &lay);
                    cover!(true, "err");
                }
            }
            let back = <Result<A, B> as Value>::untransform(t);
            assert!(back.same(&v), "untransform(transform(v)) != v");
        }
    };
}

macro_rules! mirror_verdict {
    ($name:ident, $a:ty, $b:ty) => {
        #[cfg_attr(kani, kani::proof)]
        pub fn $name() {
            type A = $a;
            type B = $b;
            type AT = <A as Value>::Transformed;
            type BT = <B as Value>::Transformed;
            let v: Verdict<A, B> = any();
            let t = <Verdict<A, B> as Value>::transform(v.clone());
            let lay = enum_layout(Some(Layout::of::<AT>()), Some(Layout::of::<BT>()));
            match &v {
                Verdict::Accept(x) => {
                    let xt = <A as Value>::transform(x.clone());
                    check_mirror::<Verdict<AT, BT>, AT>(&t, 0, Some(&xt), &lay);
                    cover!(true, "accept");
                }
                Verdict::Reject(x) => {
                    let xt = <B as Value>::transform(x.clone());
                    check_mirror::<Verdict<AT, BT>, BT>(&t, 1, Some(&xt), &lay);
                    cover!(true, "reject");
                }
            }
            let back = <Verdict<A, B> as Value>::untransform(t);
            assert!(back.same(&v), "untransform(transform(v)) != v");
        }
    };
}

mirror_option!(c05_opt_u8, u8);
mirror_option!(c05_opt_u16, u16);
mirror_option!(c05_opt_u32, u32);
mirror_option!(c05_opt_u64, u64);
mirror_option!(c05_opt_i8, i8);
mirror_option!(c05_opt_i16, i16);
mirror_option!(c05_opt_i32, i32);
mirror_option!(c05_opt_i64, i64);
mirror_option!(c05_opt_f32, f32);
mirror_option!(c05_opt_f64, f64);
mirror_option!(c05_opt_bool, bool);
mirror_option!(c05_opt_char, char);
mirror_option!(c05_opt_unit, ());
mirror_option!(c05_opt_val3, Val<[u8; 3]>);
mirror_option!(c05_opt_val24, Val<[u64; 3]>);
mirror_option!(c05_opt_opt_u16, Option<u16>);
mirror_option!(c05_opt_opt_u64, Option<u64>);
mirror_option!(c05_opt_res_u8_u32, Result<u8, u32>);
mirror_result!(c05_res_u8_u64, u8, u64);
mirror_result!(c05_res_u64_u8, u64, u8);
mirror_result!(c05_res_i32_unit, i32, ());
mirror_result!(c05_res_unit_unit, (), ());
mirror_result!(c05_res_f32_char, f32, char);
mirror_result!(c05_res_opt_u16_bool, Option<u16>, bool);
mirror_verdict!(c05_ver_u8_u64, u8, u64);
mirror_verdict!(c05_ver_u32_unit, u32, ());
mirror_verdict!(c05_ver_unit_unit, (), ());
mirror_verdict!(c05_ver_unit_i16, (), i16);
mirror_verdict!(c05_ver_f64_bool, f64, bool);
mirror_verdict!(c05_ver_opt_u8_val3, Option<u8>, Val<[u8; 3]>);
// the larger side is the less aligned one: the enum size must still be rounded to the larger alignment
mirror_verdict!(c05_ver_val9_u32, Val<[u8; 9]>, u32);
mirror_result!(c05_res_u64_val17, u64, Val<[u8; 17]>);

crate::list![
    c05_opt_u8,
    c05_opt_u16,
    c05_opt_u32,
    c05_opt_u64,
    c05_opt_i8,
    c05_opt_i16,
    c05_opt_i32,
    c05_opt_i64,
    c05_opt_f32,
    c05_opt_f64,
    c05_opt_bool,
    c05_opt_char,
    c05_opt_unit,
    c05_opt_val3,
    c05_opt_val24,
    c05_opt_opt_u16,
    c05_opt_opt_u64,
    c05_opt_res_u8_u32,
    c05_res_u8_u64,
    c05_res_u64_u8,
    c05_res_i32_unit,
    c05_res_unit_unit,
    c05_res_f32_char,
    c05_res_opt_u16_bool,
    c05_ver_u8_u64,
    c05_ver_u32_unit,
    c05_ver_unit_unit,
    c05_ver_unit_i16,
    c05_ver_f64_bool,
    c05_ver_opt_u8_val3,
    c05_ver_val9_u32,
    c05_res_u64_val17,
];
