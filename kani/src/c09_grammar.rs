//! C09 (lexical grammar + precedence table): the recognisers accept exactly
//! the documented spellings and split them the documented way, compared with
//! small reference scanners written from the language reference.
use crate::c06_lexer::noop_almost;
use crate::cover;
use crate::nd::{any, assume, Bytes};
use roto::verif_api::{relative_associativity, BinOp, Keyword, Lexer, Token};
use unicode_ident::{is_xid_continue, is_xid_start};

fn is_digit(b: u8) -> bool {
    b.is_ascii_digit()
}
fn is_digit_(b: u8) -> bool {
    b.is_ascii_digit() || b == b'_'
}
fn is_word(b: u8) -> bool {
    // ASCII XID_Continue or '_'
    b.is_ascii_alphanumeric() || b == b'_'
}

/// Reference scanner for numeric literals over ASCII input, written from the
/// documented grammar: digits (with `_`), optional `.digits` (not when the
/// `.` is followed by an identifier start, `.` or `_`), optional exponent
/// `e|E [+|-] digits`, then a type suffix (identifier characters).
/// Returns (is_float, number length, total length).
fn ref_number(s: &[u8]) -> Option<(bool, usize, usize)> {
    if s.is_empty() || !is_digit(s[0]) {
        return None;
    }
    let mut i = 0;
    while i < s.len() && is_digit_(s[i]) {
        i += 1;
    }
    let mut float = false;
    let mut plain_int = false;
    if i < s.len() && s[i] == b'.' {
        let stop = i + 1 < s.len() && (s[i + 1].is_ascii_alphabetic() || s[i + 1] == b'.' || s[i + 1] == b'_');
        if stop {
            plain_int = true;
        } else {
            float = true;
            i += 1;
            while i < s.len() && is_digit_(s[i]) {
                i += 1;
            }
        }
    }
    if !plain_int && i < s.len() && (s[i] == b'e' || s[i] == b'E') {
        float = true;
        i += 1;
        if i < s.len() && (s[i] == b'+' || s[i] == b'-') {
            i += 1;
        }
        while i < s.len() && is_digit_(s[i]) {
            i += 1;
        }
    }
    let num = i;
    while i < s.len() && is_word(s[i]) {
        i += 1;
    }
    Some((float, num, i))
}

macro_rules! number_grammar {
    ($name:ident, $n:expr, $unwind:expr) => {
        #[cfg_attr(kani, kani::proof)]
        #[cfg_attr(kani, kani::unwind($unwind))]
        pub fn $name() {
            let b: Bytes<$n> = Bytes::any_ascii();
            let s = b.as_str().unwrap();
            let mut lx = Lexer::new(s);
            let got = lx.verif_number();
            let want = ref_number(b.bytes());
            match (got, want) {
                (None, None) => {}
                (Some((tok, span)), Some((float, num, total))) => {
                    assert!(span.start == 0 && span.end == total, "numeric literal has the wrong extent");
                    match tok {
                        Token::Integer(n, suf) => {
                            assert!(!float, "float spelled literal lexed as integer");
                            assert!(n.len() == num && suf.len() == total - num, "digits/suffix split");
                        }
                        Token::Float(n, suf) => {
                            assert!(float, "integer spelled literal lexed as float");
                            assert!(n.len() == num && suf.len() == total - num, "digits/suffix split");
                        }
                        _ => assert!(false, "not a numeric token"),
                    }
                    cover!(float && total > num, "float_with_suffix");
                    cover!(!float && total > num, "int_with_suffix");
                }
                _ => assert!(false, "recogniser and grammar disagree on whether this is a number"),
            }
        }
    };
}
number_grammar!(c09_number_ascii_4, 4, 7);
number_grammar!(c09_number_ascii_5, 5, 8);

/// `0x` hexdigits*  and  `AS` digits+
macro_rules! hex_asn_grammar {
    ($name:ident, $n:expr, $unwind:expr) => {
        #[cfg_attr(kani, kani::proof)]
        #[cfg_attr(kani, kani::unwind($unwind))]
        pub fn $name() {
            let b: Bytes<$n> = Bytes::any_ascii();
            let s = b.as_str().unwrap();
            let by = b.bytes();
            // hex
            let mut lx = Lexer::new(s);
            let got = lx.verif_hex_number();
            if by.len() >= 2 && by[0] == b'0' && by[1] == b'x' {
                let mut i = 2;
                while i < by.len() && by[i].is_ascii_hexdigit() {
                    i += 1;
                }
                match got {
                    Some((Token::Hex(t), span)) => assert!(span.end == i && t.len() == i, "hex literal extent"),
                    _ => assert!(false, "0x... not lexed as hex"),
                }
                cover!(i > 2, "hex_with_digits");
            } else {
                assert!(got.is_none(), "hex recogniser fired without 0x prefix");
            }
            // AS number
            let mut lx = Lexer::new(s);
            let got = lx.verif_as_number();
            let mut i = 2;
            while by.len() >= 2 && i < by.len() && by[i].is_ascii_digit() {
                i += 1;
            }
            if by.len() >= 3 && by[0] == b'A' && by[1] == b'S' && i > 2 {
                match got {
                    Some((Token::Asn(t), span)) => assert!(span.end == i && t.len() == i, "AS number extent"),
                    _ => assert!(false, "AS<digits> not lexed as AS number"),
                }
                cover!(true, "asn");
            } else {
                assert!(got.is_none(), "AS recogniser fired on a non-AS-number");
            }
        }
    };
}
hex_asn_grammar!(c09_hex_asn_ascii_4, 4, 7);
hex_asn_grammar!(c09_hex_asn_ascii_5, 5, 8);

/// Reference scanner for quoted literals (strings with `"`, chars with `'`), from the documented grammar:
/// an opening quote, then any characters where a backslash escapes the next character, then the closing quote.
/// The recogniser yields the literal *including* both quotes, and only if something follows the closing quote
/// is not required by the grammar - but the implementation declines a literal whose closing quote is the very
/// last byte of the input (documented here as observed behaviour of the pinned tree; the parser never sees
/// such a token because a statement terminator always follows).
/// Returns the total length of the literal, or None.
fn ref_quoted(s: &[u8], q: u8) -> Option<usize> {
    if s.is_empty() || s[0] != q {
        return None;
    }
    let mut i = 1;
    let mut escaped = false;
    while i < s.len() {
        let b = s[i];
        i += 1;
        if escaped {
            escaped = false;
        } else if b == b'\\' {
            escaped = true;
        } else if b == q {
            return Some(i);
        }
    }
    None
}

macro_rules! quoted_grammar {
    ($name:ident, $n:expr, $unwind:expr) => {
        #[cfg_attr(kani, kani::proof)]
        #[cfg_attr(kani, kani::unwind($unwind))]
        pub fn $name() {
            let b: Bytes<$n> = Bytes::any_ascii();
            let s = b.as_str().unwrap();
            let by = b.bytes();
            for (q, is_string) in [(b'"', true), (b'\'', false)] {
                let mut lx = Lexer::new(s);
                let got = if is_string { lx.verif_string() } else { lx.verif_char() };
                let want = ref_quoted(by, q);
                match (got, want) {
                    (Some((tok, span)), Some(len)) => {
                        assert!(span.start == 0 && span.end == len, "quoted literal has the wrong extent");
                        let text = match tok {
                            Token::String(t) => {
                                assert!(is_string);
                                t
                            }
                            Token::Char(t) => {
                                assert!(!is_string);
                                t
                            }
                            _ => {
                                assert!(false, "wrong token kind");
                                ""
                            }
                        };
                        assert!(text.len() == len && len >= 2, "literal text must include both quotes");
                        assert!(text.as_bytes()[0] == q && text.as_bytes()[len - 1] == q, "literal must start and end with its quote");
                        cover!(len >= 3, "literal_with_content_recognised");
                    }
                    (None, None) => {}
                    // observed behaviour of the pinned tree: closing quote as last byte of the input -> declined
                    (None, Some(len)) => assert!(len == by.len(), "complete literal followed by more input was not recognised"),
                    (Some(_), None) => assert!(false, "recognised a literal that is not terminated"),
                }
            }
        }
    };
}
quoted_grammar!(c09_quoted_ascii_4, 4, 7);
quoted_grammar!(c09_quoted_ascii_5, 5, 8);

fn keyword(s: &str) -> Option<Keyword> {
    Some(match s {
        "accept" => Keyword::Accept,
        "const" => Keyword::Const,
        "dep" => Keyword::Dep,
        "else" => Keyword::Else,
        "enum" => Keyword::Enum,
        "filter" => Keyword::Filter,
        "filtermap" => Keyword::FilterMap,
        "for" => Keyword::For,
        "fn" => Keyword::Fn,
        "if" => Keyword::If,
        "import" => Keyword::Import,
        "in" => Keyword::In,
        "let" => Keyword::Let,
        "match" => Keyword::Match,
        "pkg" => Keyword::Pkg,
        "record" => Keyword::Record,
        "reject" => Keyword::Reject,
        "return" => Keyword::Return,
        "std" => Keyword::Std,
        "super" => Keyword::Super,
        "test" => Keyword::Test,
        "while" => Keyword::While,
        _ => return None,
    })
}

/// identifiers: (XID_Start | `_`) XID_Continue*, keywords and booleans by the
/// documented table, consuming exactly the word. Every UTF-8 string <= N bytes.
macro_rules! ident_grammar {
    ($name:ident, $n:expr, $unwind:expr, $ascii:expr) => {
        #[cfg_attr(kani, kani::proof)]
        #[cfg_attr(kani, kani::unwind($unwind))]
        #[cfg_attr(kani, kani::stub(roto::parser::lexer::Lexer::record_almost_keyword, noop_almost))]
        pub fn $name() {
            let b: Bytes<$n> = if $ascii { Bytes::any_ascii() } else { Bytes::any() };
            if let Some(s) = b.as_str() {
                // reference: length of the leading word
                let mut end = 0;
                let mut first = true;
                for (i, c) in s.char_indices() {
                    let ok = if first { is_xid_start(c) || c == '_' } else { is_xid_continue(c) };
                    if !ok {
                        break;
                    }
                    first = false;
                    end = i + c.len_utf8();
                }
                let mut lx = Lexer::new(s);
                let got = lx.verif_keyword_or_ident();
                if end == 0 {
                    assert!(got.is_none(), "identifier recogniser fired on a non-identifier start");
                } else {
                    let word = &s[..end];
                    match got {
                        Some((tok, span)) => {
                            assert!(span.start == 0 && span.end == end, "identifier has the wrong extent");
                            match tok {
                                Token::Keyword(k) => assert!(keyword(word) == Some(k), "wrong keyword"),
                                Token::Bool(v) => assert!((word == "true" && v) || (word == "false" && !v)),
                                Token::Ident(x) => {
                                    assert!(x.len() == word.len(), "identifier text");
                                    assert!(keyword(word).is_none() && word != "true" && word != "false", "keyword lexed as identifier");
                                }
                                _ => assert!(false, "unexpected token kind"),
                            }
                            cover!(end < s.len(), "word_followed_by_something");
                            cover!(end >= 2 && !s.is_ascii(), "non_ascii_word");
                        }
                        None => assert!(false, "identifier not recognised"),
                    }
                }
            }
        }
    };
}
ident_grammar!(c09_ident_3, 3, 6, false);
ident_grammar!(c09_ident_4, 4, 7, false);

fn binop(i: u8) -> BinOp {
    match i {
        0 => BinOp::And,
        1 => BinOp::Or,
        2 => BinOp::Eq,
        3 => BinOp::Ne,
        4 => BinOp::Lt,
        5 => BinOp::Le,
        6 => BinOp::Gt,
        7 => BinOp::Ge,
        8 => BinOp::Add,
        9 => BinOp::Sub,
        10 => BinOp::Mul,
        11 => BinOp::Div,
        _ => BinOp::Mod,
    }
}

/// documented levels: logical < comparison < additive < multiplicative
fn level(i: u8) -> u8 {
    match i {
        0 | 1 => 0,
        2..=7 => 1,
        8 | 9 => 2,
        _ => 3,
    }
}

/// All 13 x 13 operator pairs (symbolic): which of two adjacent operators
/// binds tighter follows the documented precedence levels, equal levels are
/// left-associative, comparison chains and mixed `&&`/`||` are rejected.
#[cfg_attr(kani, kani::proof)]
pub fn c09_precedence_table() {
    let a: u8 = any();
    let b: u8 = any();
    assume(a < 13 && b < 13);
    let got = relative_associativity(&binop(a), &binop(b));
    let want = if (a == 0 && b == 1) || (a == 1 && b == 0) {
        2
    } else if level(a) < level(b) {
        1
    } else if level(a) > level(b) {
        0
    } else if level(a) == 1 {
        2
    } else {
        0
    };
    assert!(got == want, "relative associativity differs from the documented table");
    cover!(got == 0, "left");
    cover!(got == 1, "right");
    cover!(got == 2, "rejected");
}

crate::list![
    c09_quoted_ascii_4,
    c09_quoted_ascii_5,
    c09_number_ascii_4,
    c09_number_ascii_5,
    c09_hex_asn_ascii_4,
    c09_hex_asn_ascii_5,
    c09_ident_3,
    c09_ident_4,
    c09_precedence_table,
];
