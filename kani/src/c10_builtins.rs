//! C10 (K part): argument-validating kernels behind built-ins must return a
//! value for every argument, because a panic inside the `extern "C"`
//! trampoline aborts the host. The string views and list accessors are
//! covered by the C17 / C15 harnesses (no-panic is part of "returns the
//! documented value"); this file holds what is specific to C10.
use crate::cover;
use crate::nd::any;
use std::net::{IpAddr, Ipv4Addr, Ipv6Addr};

/// `Prefix.new(ip, len)` is registered as `Prefix::new_relaxed(ip, len).unwrap()`
/// (runtime/basic.rs): the unwrap is safe only if `new_relaxed` is `Ok` for
/// every `len: u8`.
#[cfg_attr(kani, kani::proof)]
pub fn c10_prefix_new_total_v4() {
    let a: [u8; 4] = any();
    let len: u8 = any();
    let ip = IpAddr::V4(Ipv4Addr::new(a[0], a[1], a[2], a[3]));
    let r = inetnum::addr::Prefix::new_relaxed(ip, len);
    cover!(r.is_ok(), "ok");
    assert!(r.is_ok(), "Prefix::new_relaxed is Err for some (ip, len): Prefix.new would panic in the trampoline");
}

#[cfg_attr(kani, kani::proof)]
pub fn c10_prefix_new_total_v6() {
    let a: [u16; 8] = any();
    let len: u8 = any();
    let ip = IpAddr::V6(Ipv6Addr::new(a[0], a[1], a[2], a[3], a[4], a[5], a[6], a[7]));
    let r = inetnum::addr::Prefix::new_relaxed(ip, len);
    cover!(r.is_ok(), "ok");
    assert!(r.is_ok(), "Prefix::new_relaxed is Err for some (ip, len): Prefix.new would panic in the trampoline");
}

crate::list![c10_prefix_new_total_v4, c10_prefix_new_total_v6];
