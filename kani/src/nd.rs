//! Nondeterminism shim.
//!
//! Under Kani every `nd::any::<T>()` is `kani::any()`, i.e. a symbolic value the
//! solver decides. In a native build (the *replay twin*) the same call pops
//! the next concrete value from a queue filled from Kani's
//! `--concrete-playback=print` output, so the harness body that the solver
//! analysed is re-run unchanged against the real build.

#[cfg(not(kani))]
use std::cell::RefCell;
#[cfg(not(kani))]
use std::collections::VecDeque;

#[cfg(not(kani))]
thread_local! {
    static QUEUE: RefCell<VecDeque<Vec<u8>>> = RefCell::new(VecDeque::new());
    pub static COVERS: RefCell<Vec<&'static str>> = RefCell::new(Vec::new());
}

#[cfg(not(kani))]
pub fn load(vals: Vec<Vec<u8>>) {
    QUEUE.with(|q| *q.borrow_mut() = vals.into());
}

#[cfg(not(kani))]
fn pop(n: usize) -> Vec<u8> {
    QUEUE.with(|q| {
        let v = q.borrow_mut().pop_front().unwrap_or_else(|| vec![0; n]);
        if v.len() != n {
            eprintln!("REPLAY-MISMATCH: wanted {n} bytes, got {}", v.len());
            std::process::exit(3);
        }
        v
    })
}

pub trait Nd: Sized {
    fn nd() -> Self;
}

macro_rules! prim {
    ($($t:ty),*) => {$(
        impl Nd for $t {
            #[cfg(kani)]
            fn nd() -> Self { kani::any() }
            #[cfg(not(kani))]
            fn nd() -> Self {
                let v = pop(std::mem::size_of::<$t>());
                <$t>::from_le_bytes(v.try_into().unwrap())
            }
        }
    )*};
}
prim!(u8, u16, u32, u64, u128, usize, i8, i16, i32, i64, i128, isize, f32, f64);

impl Nd for bool {
    #[cfg(kani)]
    fn nd() -> Self {
        kani::any()
    }
    #[cfg(not(kani))]
    fn nd() -> Self {
        pop(1)[0] != 0
    }
}

impl Nd for char {
    #[cfg(kani)]
    fn nd() -> Self {
        kani::any()
    }
    #[cfg(not(kani))]
    fn nd() -> Self {
        let v = pop(4);
        char::from_u32(u32::from_le_bytes(v.try_into().unwrap())).unwrap_or('\0')
    }
}

impl Nd for () {
    fn nd() -> Self {}
}

impl<T: Nd, const N: usize> Nd for [T; N] {
    fn nd() -> Self {
        core::array::from_fn(|_| T::nd())
    }
}

impl<T: Nd> Nd for Option<T> {
    fn nd() -> Self {
        if bool::nd() { Some(T::nd()) } else { None }
    }
}

impl<T: Nd, E: Nd> Nd for Result<T, E> {
    fn nd() -> Self {
        if bool::nd() { Ok(T::nd()) } else { Err(E::nd()) }
    }
}

pub fn any<T: Nd>() -> T {
    T::nd()
}

#[cfg(kani)]
pub fn assume(c: bool) {
    kani::assume(c)
}

#[cfg(not(kani))]
pub fn assume(c: bool) {
    if !c {
        eprintln!("REPLAY-MISMATCH: assumption does not hold for the replayed values");
        std::process::exit(3);
    }
}

/// Reachability witness: must be satisfiable for the harness to count
#[macro_export]
macro_rules! cover {
    ($c:expr, $name:literal) => {{
        #[cfg(kani)]
        kani::cover!($c, $name);
        #[cfg(not(kani))]
        if $c {
            $crate::nd::COVERS.with(|c| c.borrow_mut().push($name));
        }
    }};
}

/// A valid UTF-8 string of at most N symbolic bytes (None if the bytes are not UTF-8)
pub struct Bytes<const N: usize> {
    pub buf: [u8; N],
    pub len: usize,
}

impl<const N: usize> Bytes<N> {
    pub fn any() -> Self {
        let buf: [u8; N] = any();
        let len: usize = any();
        assume(len <= N);
        Self { buf, len }
    }
    pub fn any_ascii() -> Self {
        let b = Self::any();
        let mut i = 0;
        while i < N {
            assume(b.buf[i] < 128);
            i += 1;
        }
        b
    }
    pub fn bytes(&self) -> &[u8] {
        &self.buf[..self.len]
    }
    pub fn as_str(&self) -> Option<&str> {
        std::str::from_utf8(self.bytes()).ok()
    }
}
