//! Native replay twin: `replay <harness> <json array of byte arrays>`
//! runs the harness body that Kani analysed with the concrete values of a
//! counterexample against the real (natively compiled) roto.
//! Exit: 0 = ran to completion (counterexample NOT reproduced),
//! 101 = panic (reproduced), 3 = replay values do not fit the harness.
#[cfg(not(kani))]
fn parse(s: &str) -> Vec<Vec<u8>> {
    // minimal parser for [[1,2],[3]]
    let mut out = Vec::new();
    let mut cur: Option<Vec<u8>> = None;
    let mut num: Option<u32> = None;
    let mut depth = 0;
    for c in s.chars() {
        match c {
            '[' => {
                depth += 1;
                if depth == 2 {
                    cur = Some(Vec::new());
                }
            }
            ']' => {
                if let (Some(n), Some(v)) = (num.take(), cur.as_mut()) {
                    v.push(n as u8);
                }
                if depth == 2 {
                    out.push(cur.take().unwrap());
                }
                depth -= 1;
            }
            ',' => {
                if let (Some(n), Some(v)) = (num.take(), cur.as_mut()) {
                    v.push(n as u8);
                }
            }
            d if d.is_ascii_digit() => {
                num = Some(num.unwrap_or(0) * 10 + d.to_digit(10).unwrap());
            }
            _ => {}
        }
    }
    out
}

#[cfg(kani)]
fn main() {}

#[cfg(not(kani))]
fn main() {
    let args: Vec<String> = std::env::args().collect();
    if args.len() == 2 && args[1] == "--list" {
        for (n, _) in roto_verif_kani::all() {
            println!("{n}");
        }
        return;
    }
    let name = &args[1];
    let vals = parse(&args[2]);
    let Some((_, f)) = roto_verif_kani::all().into_iter().find(|(n, _)| n == name) else {
        eprintln!("unknown harness {name}");
        std::process::exit(4);
    };
    roto_verif_kani::nd::load(vals);
    f();
    roto_verif_kani::nd::COVERS.with(|c| {
        for c in c.borrow().iter() {
            println!("COVERED {c}");
        }
    });
    println!("REPLAY-COMPLETED {name}");
}
