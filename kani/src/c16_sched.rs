//! C16: the schedule is a symbolic input. With hook H3 every list operation
//! calls `yield_point(site)` wherever it holds no lock (before each lock
//! acquisition and in the lookup->use window of `List::get` / `ffi::list_get`).
//! The harness installs a callback that, if a `kani::any()` schedule bit says
//! so, runs the *other thread's* whole operation sequence at that point
//! (preemption depth 1; the preempting operations run atomically, which is
//! what the per-operation mutex guarantees natively for the critical sections).
//!
//! Oracles: CBMC's pointer checks (a read through an address obtained before
//! the other thread's push reallocated the buffer is "dereference failure:
//! deallocated dynamic object"), plus linearisability against the array model.
use crate::cover;
use crate::nd::{any, assume};
use roto::verif_api::{list_verif, sched, RotoOption, YIELD_HOOK};
use roto::List;

/// schedule points at which the running operation itself holds a list lock
/// (second lock of `==`, `concat`): natively the other thread would block
/// there, so no preemption is modelled at these sites
const LOCK_HELD_SITES: [u32; 3] = [13, 16, 19];

/// Site 1 is the schedule point inside `List::get`. On the pinned tree it sat between the element lookup and its
/// use (no lock held, the pointer already escaped); with the lock held across lookup and clone it can only sit
/// before the lock acquisition. The linearisation point of `get` relative to site 1 therefore depends on which of
/// the two the code under test is; the harness asks the code by observing whether site 20 (ErasedList::get's own
/// lock) is passed before site 1.
const BEFORE_LOCK_1: bool = true;

static mut SHARED: Option<List<u64>> = None;
static mut FIRED_AT: u32 = 0; // site at which the preemption happened (0 = never)
static mut ONLY_SITE: u32 = 0; // the one schedule point at which this harness lets the other thread run (0 = any)
const PUSHED: [u64; 4] = [0x1111, 0x2222, 0x3333, 0x4444];

/// common part of the other thread: decide (symbolically) whether to preempt here
fn fire(site: u32) -> Option<&'static List<u64>> {
    unsafe {
        if FIRED_AT != 0 || LOCK_HELD_SITES.contains(&site) || (ONLY_SITE != 0 && site != ONLY_SITE) {
            return None;
        }
        // the release points of hook H7 (site >= RELEASE_BASE) are used only by the harnesses that name one
        if site >= sched::RELEASE_BASE && ONLY_SITE != site {
            return None;
        }
        let fire: bool = any();
        if !fire {
            return None;
        }
        FIRED_AT = site;
        (*std::ptr::addr_of!(SHARED)).as_ref()
    }
}

/// four pushes: crosses the first growth boundary of a 1-element u64 list (capacity 4 -> 8)
fn other_push4(site: u32) {
    if let Some(l) = fire(site) {
        l.push(PUSHED[0]);
        l.push(PUSHED[1]);
        l.push(PUSHED[2]);
        l.push(PUSHED[3]);
    }
}

/// one push: no reallocation
fn other_push1(site: u32) {
    if let Some(l) = fire(site) {
        l.push(PUSHED[0]);
    }
}

fn other_swap01(site: u32) {
    if let Some(l) = fire(site) {
        l.swap(0, 1);
    }
}

fn other_clone_drop(site: u32) {
    if let Some(l) = fire(site) {
        let c = l.clone();
        drop(c);
    }
}

fn setup(other: fn(u32), n_init: usize) -> (List<u64>, [u64; 2]) {
    setup_at(other, n_init, 0)
}

fn done() -> u32 {
    // the operation under test is over: no more preemption while the postconditions are evaluated
    unsafe {
        YIELD_HOOK = None;
        FIRED_AT
    }
}

fn setup_at(other: fn(u32), n_init: usize, only_site: u32) -> (List<u64>, [u64; 2]) {
    let l: List<u64> = List::new();
    let m: [u64; 2] = any();
    if n_init >= 1 {
        l.push(m[0]);
    }
    if n_init >= 2 {
        l.push(m[1]);
    }
    unsafe {
        FIRED_AT = 0;
        ONLY_SITE = only_site;
        SHARED = Some(l.clone());
        sched::reset();
        YIELD_HOOK = Some(other);
    }
    (l, m)
}

fn teardown(l: List<u64>) {
    unsafe {
        YIELD_HOOK = None;
        let s = (*std::ptr::addr_of_mut!(SHARED)).take();
        std::mem::forget(s);
    }
    std::mem::forget(l);
}

/// Rust-side `get(0)` on a 1-element list while another thread pushes 4
/// elements (reallocation) - preemption between the element lookup and its use
/// (site 1) or before the lookup's lock (sites 1/20): the element read must be
/// the element stored, and no access may go through the old buffer.
macro_rules! get_vs_push4 {
    ($name:ident, $site:expr) => {
        #[cfg_attr(kani, kani::proof)]
        #[cfg_attr(kani, kani::unwind(8))]
        #[cfg_attr(kani, kani::stub(std::sync::Mutex::lock, crate::stubs::mutex_lock_stub))]
        pub fn $name() {
            let (l, m) = setup_at(other_push4, 1, $site);
            let g = l.get(0);
            let at = done();
            assert!(g == Some(m[0]), "get(0) returned something else than the stored element");
            cover!(at == $site, "preempted");
            cover!(at == 0, "not_preempted");
            teardown(l);
        }
    };
}
get_vs_push4!(c16_get_vs_push4_realloc_site1, 1);

/// script-side `get` (`ffi::list_get`) under the same schedules
macro_rules! ffi_get_vs_push4 {
    ($name:ident, $site:expr) => {
        #[cfg_attr(kani, kani::proof)]
        #[cfg_attr(kani, kani::unwind(8))]
        #[cfg_attr(kani, kani::stub(std::sync::Mutex::lock, crate::stubs::mutex_lock_stub))]
        pub fn $name() {
            let (l, m) = setup_at(other_push4, 1, $site);
            let mut slot = std::mem::MaybeUninit::<RotoOption<u64>>::uninit();
            unsafe { list_verif::list_get(slot.as_mut_ptr() as *mut u8, &l, 0) };
            let at = done();
            let p = slot.as_ptr() as *const u8;
            unsafe {
                assert!(*p == 0, "in-range get must be Some");
                assert!(std::ptr::read(p.add(8) as *const u64) == m[0], "wrong element");
            }
            cover!(at == $site, "preempted");
            cover!(at == 0, "not_preempted");
            teardown(l);
        }
    };
}
ffi_get_vs_push4!(c16_ffi_get_vs_push4_realloc_site11, 11);

/// `to_vec()` on a 1-element list while another thread pushes 4 elements (relocation 4 -> 8) at the schedule point
/// that hook H7 raises *after the release* of `to_vec`'s lock: if the elements are cloned after the lock is gone, the
/// clone reads the old buffer ("dereference failure: deallocated dynamic object"); with the lock held across the
/// clone the point is reached only when `to_vec` is complete. The result is the list before the pushes.
#[cfg_attr(kani, kani::proof)]
#[cfg_attr(kani, kani::unwind(8))]
#[cfg_attr(kani, kani::stub(std::sync::Mutex::lock, crate::stubs::mutex_lock_stub))]
pub fn c16_to_vec_vs_push4_after_release() {
    let (l, m) = setup_at(other_push4, 1, sched::RELEASE_BASE + 1);
    let v = l.to_vec();
    let at = done();
    assert!(v.len() == 1 && v[0] == m[0], "to_vec returned something else than the list at its linearisation point");
    cover!(at == sched::RELEASE_BASE + 1, "preempted_after_release");
    std::mem::forget(v);
    teardown(l);
}

/// The relocation schedules from a *full* list (len == capacity == 4, built directly by hook `full_u64_list` - the
/// state four pushes reach): ONE push by the other thread relocates the storage (4 -> 8). Much cheaper for CBMC than
/// reaching the boundary by four pushes, so these are proofs, not refutation attempts.
fn setup_full_at(other: fn(u32), only_site: u32) -> (List<u64>, [u64; 4]) {
    let m: [u64; 4] = any();
    let l = list_verif::full_u64_list(&m);
    unsafe {
        FIRED_AT = 0;
        ONLY_SITE = only_site;
        SHARED = Some(l.clone());
        sched::reset();
        YIELD_HOOK = Some(other);
    }
    (l, m)
}

macro_rules! full_vs_push1 {
    ($name:ident, $site:expr, $op:ident) => {
        #[cfg_attr(kani, kani::proof)]
        #[cfg_attr(kani, kani::unwind(8))]
        #[cfg_attr(kani, kani::stub(std::sync::Mutex::lock, crate::stubs::mutex_lock_stub))]
        pub fn $name() {
            let (l, m) = setup_full_at(other_push1, $site);
            full_vs_push1!(@$op l, m, $site);
            teardown(l);
        }
    };
    (@get $l:ident, $m:ident, $site:expr) => {
        let i: usize = any();
        assume(i <= 3);
        let g = $l.get(i);
        let at = done();
        assert!(g == Some($m[i]), "get returned something else than the stored element");
        assert!($l.capacity() == if at != 0 { 8 } else { 4 });
        cover!(at == $site, "preempted_and_relocated");
    };
    (@to_vec $l:ident, $m:ident, $site:expr) => {
        let v = $l.to_vec();
        let at = done();
        // the push happens before to_vec's critical section (5 elements) or after it (4)
        assert!(v.len() == if at != 0 && at < sched::RELEASE_BASE { 5 } else { 4 }, "to_vec length is not the length at its linearisation point");
        assert!(v[0] == $m[0] && v[3] == $m[3], "to_vec returned something else than the stored elements");
        cover!(at == $site, "preempted_and_relocated");
        std::mem::forget(v);
    };
}
full_vs_push1!(c16_full_get_vs_push1_before_lock, 1, get);
full_vs_push1!(c16_full_get_vs_push1_after_release, sched::RELEASE_BASE + 1, get);
full_vs_push1!(c16_full_to_vec_vs_push1_before_lock, 14, to_vec);
full_vs_push1!(c16_full_to_vec_vs_push1_after_release, sched::RELEASE_BASE + 1, to_vec);

/// `get(i)` vs one push without reallocation: linearisable (index == old
/// length sees the pushed element iff the push's critical section came first).
#[cfg_attr(kani, kani::proof)]
#[cfg_attr(kani, kani::unwind(8))]
#[cfg_attr(kani, kani::stub(std::sync::Mutex::lock, crate::stubs::mutex_lock_stub))]
pub fn c16_get_vs_push1_linearizable() {
    let (l, m) = setup(other_push1, 2);
    let i: usize = any();
    assume(i <= 3);
    let g = l.get(i);
    let at = done();
    let pushed = PUSHED[0];
    if i < 2 {
        assert!(g == Some(m[i]));
    } else if i == 2 {
        // push before the lookup (preempted before get's lock) -> Some(pushed); otherwise None
        if at == 20 || at == 1 && BEFORE_LOCK_1 {
            assert!(g == Some(pushed), "push completed before the lookup but is not visible");
        } else {
            assert!(g.is_none(), "get saw an element that was pushed after its lookup");
        }
    } else {
        assert!(g.is_none());
    }
    assert!(l.len() == if at != 0 { 3 } else { 2 });
    cover!(at != 0 && i == 2, "preempted_at_boundary_index");
    teardown(l);
}

/// `len()` vs one push by the other thread: the answer is the length before or after the push according to
/// the order of the critical sections.
#[cfg_attr(kani, kani::proof)]
#[cfg_attr(kani, kani::unwind(8))]
#[cfg_attr(kani, kani::stub(std::sync::Mutex::lock, crate::stubs::mutex_lock_stub))]
pub fn c16_len_vs_push1_linearizable() {
    let (l, _m) = setup(other_push1, 2);
    let n = l.len();
    let at = done();
    assert!(n == if at != 0 { 3 } else { 2 }, "len is not the length at its linearisation point");
    assert!(l.len() == if at != 0 { 3 } else { 2 }, "a push was lost or duplicated");
    cover!(at == 26, "preempted_before_len_lock");
    cover!(at == 0, "not_preempted");
    teardown(l);
}

/// `push(v)` vs one push by the other thread (no reallocation: 2 + 2 <= 4): both elements present, own element at
/// the position given by the order of the critical sections.
#[cfg_attr(kani, kani::proof)]
#[cfg_attr(kani, kani::unwind(8))]
#[cfg_attr(kani, kani::stub(std::sync::Mutex::lock, crate::stubs::mutex_lock_stub))]
pub fn c16_push_vs_push1_linearizable() {
    let (l, m) = setup(other_push1, 2);
    let v: u64 = any();
    l.push(v);
    let at = done();
    if at != 0 {
        assert!(l.len() == 4, "a push was lost");
        assert!(l.get(2) == Some(PUSHED[0]) && l.get(3) == Some(v), "pushes not in the order of their critical sections");
    } else {
        assert!(l.len() == 3 && l.get(2) == Some(v));
    }
    assert!(l.get(0) == Some(m[0]) && l.get(1) == Some(m[1]));
    cover!(at == 17, "preempted_before_push_lock");
    teardown(l);
}

/// `len` / `push` on this thread vs 4 pushes on the other: nothing lost.
#[cfg_attr(kani, kani::proof)]
#[cfg_attr(kani, kani::unwind(8))]
#[cfg_attr(kani, kani::stub(std::sync::Mutex::lock, crate::stubs::mutex_lock_stub))]
pub fn c16_push_vs_push4() {
    let (l, m) = setup(other_push4, 1);
    let v: u64 = any();
    l.push(v);
    let at = done();
    let n = l.len();
    assert!(n == if at != 0 { 6 } else { 2 }, "a push was lost");
    assert!(l.get(0) == Some(m[0]));
    // the running push lands after the other thread's pushes iff it was preempted before its lock
    let idx = if at != 0 { 5 } else { 1 };
    assert!(l.get(idx) == Some(v), "own push not at the linearisation position");
    cover!(at == 17, "preempted_before_push_lock");
    teardown(l);
}

/// `get(i)` vs `swap(0,1)` on the other thread
#[cfg_attr(kani, kani::proof)]
#[cfg_attr(kani, kani::unwind(10))]
#[cfg_attr(kani, kani::stub(std::sync::Mutex::lock, crate::stubs::mutex_lock_stub))]
#[cfg_attr(kani, kani::stub(core::ptr::swap_nonoverlapping, crate::stubs::swap_nonoverlapping_stub))]
pub fn c16_get_vs_swap() {
    let (l, m) = setup(other_swap01, 2);
    let i: usize = any();
    assume(i <= 1);
    let g = l.get(i);
    let at = done();
    // linearisable: either the value before or after the swap, consistent with the order of critical sections
    if at == 20 || at == 1 && BEFORE_LOCK_1 {
        assert!(g == Some(m[1 - i]), "swap completed before lookup but old element returned");
    } else if at == 0 {
        assert!(g == Some(m[i]));
    } else {
        // swapped while the pointer was held outside the lock: the clone reads the slot after the swap or before;
        // both are admissible values of the list, anything else is a torn/stale read
        assert!(g == Some(m[i]) || g == Some(m[1 - i]), "torn read");
    }
    cover!(at == 1, "preempted_at_site_1");
    teardown(l);
}

/// `get(0)` while the other thread clones and drops a handle
#[cfg_attr(kani, kani::proof)]
#[cfg_attr(kani, kani::unwind(8))]
#[cfg_attr(kani, kani::stub(std::sync::Mutex::lock, crate::stubs::mutex_lock_stub))]
pub fn c16_get_vs_clone_drop() {
    let (l, m) = setup(other_clone_drop, 1);
    let g = l.get(0);
    let at = done();
    assert!(g == Some(m[0]));
    cover!(at == 1, "preempted_at_site_1");
    teardown(l);
}

/// 1032-byte element: `compute_capacity` starts such lists at capacity 1, so the *second* push already reallocates
/// (1 -> 2). This keeps the relocation schedule within CBMC's reach on the repaired tree.
#[derive(Clone, Copy, PartialEq)]
pub struct Big(pub [u64; 129]);

static mut SHARED_BIG: Option<List<roto::Val<Big>>> = None;

fn other_push1_big(site: u32) {
    unsafe {
        if FIRED_AT != 0 || site != ONLY_SITE {
            return;
        }
        let fire: bool = any();
        if !fire {
            return;
        }
        FIRED_AT = site;
        let l = (*std::ptr::addr_of!(SHARED_BIG)).as_ref().unwrap();
        l.push(roto::Val(Big([0x7777; 129])));
    }
}

macro_rules! big_get_vs_push {
    ($name:ident, $site:expr, $ffi:expr) => {
        #[cfg_attr(kani, kani::proof)]
        #[cfg_attr(kani, kani::unwind(4))]
        #[cfg_attr(kani, kani::stub(std::sync::Mutex::lock, crate::stubs::mutex_lock_stub))]
        pub fn $name() {
            let l: List<roto::Val<Big>> = List::new();
            let x: u64 = any();
            let mut e = Big([0; 129]);
            e.0[0] = x;
            e.0[128] = !x;
            l.push(roto::Val(e));
            assert!(l.capacity() == 1);
            unsafe {
                FIRED_AT = 0;
                ONLY_SITE = $site;
                SHARED_BIG = Some(l.clone());
                YIELD_HOOK = Some(other_push1_big);
            }
            if $ffi {
                let mut slot = std::mem::MaybeUninit::<RotoOption<roto::Val<Big>>>::uninit();
                unsafe { list_verif::list_get(slot.as_mut_ptr() as *mut u8, &l, 0) };
                let at = done();
                let p = slot.as_ptr() as *const u8;
                unsafe {
                    assert!(*p == 0, "in-range get must be Some");
                    assert!(std::ptr::read(p.add(8) as *const u64) == x, "wrong element (first word)");
                    assert!(std::ptr::read(p.add(8 + 128 * 8) as *const u64) == !x, "wrong element (last word)");
                }
                cover!(at == $site, "preempted");
            } else {
                let g = l.get(0);
                let at = done();
                match g {
                    Some(v) => assert!(v.0.0[0] == x && v.0.0[128] == !x, "get(0) returned something else than the stored element"),
                    None => assert!(false, "get(0) on a non-empty list"),
                }
                cover!(at == $site, "preempted");
                cover!(at == $site && l.capacity() > 1, "relocated_during_get");
            }
            unsafe {
                let s = (*std::ptr::addr_of_mut!(SHARED_BIG)).take();
                std::mem::forget(s);
            }
            std::mem::forget(l);
        }
    };
}
big_get_vs_push!(c16_big_get_vs_push_realloc, 1, false);
big_get_vs_push!(c16_big_ffi_get_vs_push_realloc, 11, true);

crate::list![
    c16_full_get_vs_push1_before_lock,
    c16_full_get_vs_push1_after_release,
    c16_full_to_vec_vs_push1_before_lock,
    c16_full_to_vec_vs_push1_after_release,
    c16_to_vec_vs_push4_after_release,
    c16_len_vs_push1_linearizable,
    c16_push_vs_push1_linearizable,
    c16_big_get_vs_push_realloc,
    c16_big_ffi_get_vs_push_realloc,
    c16_get_vs_push4_realloc_site1,
    c16_ffi_get_vs_push4_realloc_site11,
    c16_get_vs_push1_linearizable,
    c16_push_vs_push4,
    c16_get_vs_swap,
    c16_get_vs_clone_drop,
];
