//! C02 (K/layout): the layout arithmetic that every field offset, enum payload
//! offset and stack-slot size in generated code is derived from
//! (`runtime/layout.rs`, used by `mir/ty.rs::layout_of` and
//! `lir/lower.rs::location`).
use crate::cover;
use crate::nd::{any, assume};
use roto::verif_api::{Layout, LayoutBuilder};

const MAX_SIZE: usize = 1 << 16;

fn any_align() -> usize {
    let s: u8 = any();
    assume(s <= 4);
    1usize << s
}

/// An arbitrary well-formed layout: align ∈ {1,2,4,8,16}, size = k·align ≤ 2^16
fn any_layout() -> Layout {
    let align = any_align();
    let size: usize = any();
    assume(size <= MAX_SIZE);
    assume(size % align == 0);
    Layout::new(size, align)
}

/// An arbitrary *reachable* builder state (size S ≤ 2^16 arbitrary, align A a
/// power of two ≤ 16): `add(k·A, A)` then `add(r, 1)` gives size k·A + r.
fn any_builder() -> (LayoutBuilder, usize, usize) {
    let a = any_layout();
    let r: usize = any();
    assume(r <= MAX_SIZE);
    let mut b = LayoutBuilder::new();
    let o1 = b.add(&a);
    assert!(o1 == 0);
    let o2 = b.add(&Layout::new(r, 1));
    assert!(o2 == a.size());
    (b, a.size() + r, a.align())
}

/// One inductive step of `LayoutBuilder::add` + `finish` from an arbitrary
/// reachable state: the new field is aligned, does not overlap what was there,
/// wastes less than one alignment unit, and the finished layout is well-formed
/// and contains the field.
#[cfg_attr(kani, kani::proof)]
pub fn c02_layout_add_step() {
    let (mut b, size0, align0) = any_builder();
    let l = any_layout();
    let off = b.add(&l);
    assert!(off >= size0, "field overlaps earlier fields");
    assert!(off % l.align() == 0, "field misaligned");
    assert!(off - size0 < l.align(), "more padding than needed");
    let fin = b.finish();
    assert!(fin.align() == align0.max(l.align()));
    assert!(fin.size() % fin.align() == 0);
    assert!(fin.size() >= off + l.size());
    assert!(fin.size() - (off + l.size()) < fin.align());
    cover!(off > size0, "padding_inserted");
    cover!(fin.size() > off + l.size(), "tail_padding");
}

/// Two consecutive fields after an arbitrary prefix never overlap and keep
/// their order (monotone offsets).
#[cfg_attr(kani, kani::proof)]
pub fn c02_layout_two_fields() {
    let (mut b, size0, _) = any_builder();
    let l1 = any_layout();
    let l2 = any_layout();
    let o1 = b.add(&l1);
    let o2 = b.add(&l2);
    assert!(o1 >= size0);
    assert!(o2 >= o1 + l1.size());
    assert!(o1 % l1.align() == 0 && o2 % l2.align() == 0);
    let fin = b.finish();
    assert!(fin.size() >= o2 + l2.size());
    assert!(fin.align() >= l1.align() && fin.align() >= l2.align());
    cover!(o2 > o1 + l1.size(), "inner_padding");
}

/// `Layout::union` (enum layout): contains both operands, well-formed, minimal.
#[cfg_attr(kani, kani::proof)]
pub fn c02_layout_union() {
    let a = any_layout();
    let b = any_layout();
    let u = a.union(&b);
    assert!(u.size() >= a.size() && u.size() >= b.size());
    assert!(u.align() == a.align().max(b.align()));
    assert!(u.size() % u.align() == 0);
    assert!(u.size() - a.size().max(b.size()) < u.align());
    cover!(u.size() > a.size() && u.size() > b.size(), "union_rounds_up");
}

/// `Layout::concat` over three layouts equals three `add`s; `offset_by(n)` is
/// the first aligned offset ≥ n.
#[cfg_attr(kani, kani::proof)]
pub fn c02_layout_concat_offset_by() {
    let a = any_layout();
    let b = any_layout();
    let c = any_layout();
    let cat = Layout::concat([a.clone(), b.clone(), c.clone()]);
    let mut bld = LayoutBuilder::new();
    bld.add(&a);
    bld.add(&b);
    let oc = bld.add(&c);
    let fin = bld.finish();
    assert!(cat.size() == fin.size() && cat.align() == fin.align());
    assert!(cat.size() >= oc + c.size());

    let n: usize = any();
    assume(n <= MAX_SIZE);
    let o = a.offset_by(n);
    assert!(o >= n && o % a.align() == 0 && o - n < a.align());
    cover!(o > n, "offset_rounded");
}

#[repr(C)]
struct R1(u8, u32, u16, u64, u8);
#[repr(C)]
struct R2(u64, u8, [u8; 3], u16);
#[repr(u8)]
#[allow(dead_code)]
enum E1 {
    A(u8, u64),
    B(u16),
    C,
}

/// The builder reproduces rustc's `repr(C)` layout on concrete shapes (no
/// symbolic input; ties the symbolic obligations above to the Rust side of the
/// boundary).
#[cfg_attr(kani, kani::proof)]
pub fn c02_layout_matches_repr_c() {
    let mut b = LayoutBuilder::new();
    assert!(b.add(&Layout::of::<u8>()) == std::mem::offset_of!(R1, 0));
    assert!(b.add(&Layout::of::<u32>()) == std::mem::offset_of!(R1, 1));
    assert!(b.add(&Layout::of::<u16>()) == std::mem::offset_of!(R1, 2));
    assert!(b.add(&Layout::of::<u64>()) == std::mem::offset_of!(R1, 3));
    assert!(b.add(&Layout::of::<u8>()) == std::mem::offset_of!(R1, 4));
    let l = b.finish();
    assert!(l.size() == std::mem::size_of::<R1>() && l.align() == std::mem::align_of::<R1>());

    let mut b = LayoutBuilder::new();
    assert!(b.add(&Layout::of::<u64>()) == std::mem::offset_of!(R2, 0));
    assert!(b.add(&Layout::of::<u8>()) == std::mem::offset_of!(R2, 1));
    assert!(b.add(&Layout::of::<[u8; 3]>()) == std::mem::offset_of!(R2, 2));
    assert!(b.add(&Layout::of::<u16>()) == std::mem::offset_of!(R2, 3));
    let l = b.finish();
    assert!(l.size() == std::mem::size_of::<R2>() && l.align() == std::mem::align_of::<R2>());

    // enum: union of (u8 tag, fields...) per variant
    let va = Layout::concat([Layout::of::<u8>(), Layout::of::<u8>(), Layout::of::<u64>()]);
    let vb = Layout::concat([Layout::of::<u8>(), Layout::of::<u16>()]);
    let vc = Layout::concat([Layout::of::<u8>()]);
    let u = va.union(&vb).union(&vc);
    assert!(u.size() == std::mem::size_of::<E1>() && u.align() == std::mem::align_of::<E1>());
}

crate::list![
    c02_layout_add_step,
    c02_layout_two_fields,
    c02_layout_union,
    c02_layout_concat_offset_by,
    c02_layout_matches_repr_c,
];
