#!/bin/bash
# developer helper: run every registered check once and report exit status and wall time
cd /verif
tier=${1:-quick}; shift
ids=${@:-C01 C02 C03 C05 C06 C08 C09 C10 C15 C16 C17 C20}
for id in $ids; do
  s=$(date +%s)
  ./check $id --tier $tier > build/sweep_$id.out 2> build/sweep_$id.err
  rc=$?
  e=$(date +%s)
  echo "$id rc=$rc wall=$((e-s))s $(grep -c VIOLATION build/sweep_$id.out) violations, $(grep -c KNOWN-FINDING build/sweep_$id.out) known, $(grep -c INCONCLUSIVE build/sweep_$id.err) inconclusive"
done
