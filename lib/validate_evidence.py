#!/opt/veriftools/pyvenv/bin/python
"""validates /verif/evidence/*.json against the evidence schema and MANIFEST.json against its schema"""
import json, glob, sys, jsonschema
schema = json.load(open("/root/.vp/EVIDENCE.schema.json"))
bad = 0
man = json.load(open("/verif/MANIFEST.json"))
jsonschema.validate(man, json.load(open("/root/.vp/MANIFEST.schema.json")))
levels = {c["property_id"]: c["level_claimed"]["category"] for c in man["checks"]}
for f in sorted(glob.glob("/verif/evidence/*.json")):
    ev = json.load(open(f))
    try:
        jsonschema.validate(ev, schema)
        ok = "valid"
    except jsonschema.ValidationError as e:
        ok = "INVALID: " + e.message[:200]
        bad += 1
    pid = ev["property_id"]
    lv = levels.get(pid)
    note = "" if lv == ev["level"] else f" (manifest level {lv} != evidence level {ev['level']})"
    cov = ev["coverage"]
    print(f"{pid}: {ok}{note} tier={ev['tier']} evaluations={cov.get('evaluations')} nontrivial={cov.get('distinct_nontrivial')} programs={cov.get('programs')} wall={ev['wall_s']}")
sys.exit(1 if bad else 0)
