#!/opt/veriftools/pyvenv/bin/python
"""developer helper: run only the engine-T (and M) part of a property check (skips the slow Kani part): tcheck.py C09 [--m]"""
import sys, os
sys.path.insert(0, os.path.dirname(os.path.abspath(__file__)))
from common import *
import props, kani_engine
kani_engine.run_set = lambda res, names, **kw: []      # no Kani
props.finish_k = lambda *a, **k: None
pid = sys.argv[1]
tier = os.environ.get("VERIF_TIER", "quick")
res = Result(pid + "_tonly", tier, int(os.environ.get("VERIF_SEED", "1")))
props.CHECKS[pid](res)
for v in res.violations:
    pass
print("translator validation:", (res.cov.get("tv") or {}).get("translator_validation"), "builtins:", bool(res.cov.get("builtins")), "M:", (res.cov.get("mir") or {}).get("translator_validation"))
print("violations:", len(res.violations), "known:", len(res.known), "inconclusive:", len(res.inconclusive))
for i in res.inconclusive[:5]:
    print("  INC", i[:300])
