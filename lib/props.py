"""Per-property check definitions (what each ./check <ID> runs)."""
import json, os, re, subprocess
from common import *
import kani_engine as K
import tv_engine as T

# ---------------------------------------------------------------- harness tables
# name -> (tier, timeout_s).  Timeouts are ~4x the time measured on the pinned tree.
def kh(mod, names, tier="quick", timeout=600):
    return [(f"{mod}::{n}", tier, timeout) for n in names]

K_C02 = kh("c02_layout", ["c02_layout_add_step", "c02_layout_two_fields", "c02_layout_union",
                          "c02_layout_concat_offset_by", "c02_layout_matches_repr_c"])
K_C05 = kh("c05_mirror", ["c05_opt_u8", "c05_opt_u16", "c05_opt_u32", "c05_opt_u64", "c05_opt_i8", "c05_opt_i16",
                          "c05_opt_i32", "c05_opt_i64", "c05_opt_f32", "c05_opt_f64", "c05_opt_bool", "c05_opt_char",
                          "c05_opt_unit", "c05_opt_val3", "c05_opt_val24", "c05_opt_opt_u16", "c05_opt_opt_u64",
                          "c05_opt_res_u8_u32", "c05_res_u8_u64", "c05_res_u64_u8", "c05_res_i32_unit",
                          "c05_res_unit_unit", "c05_res_f32_char", "c05_res_opt_u16_bool", "c05_ver_u8_u64",
                          "c05_ver_u32_unit", "c05_ver_unit_unit", "c05_ver_unit_i16", "c05_ver_f64_bool",
                          "c05_ver_opt_u8_val3"])


def select(table, tier):
    return [(n, to) for (n, t, to) in table if t == "quick" or tier == "thorough"]


def kani_part(res, table, known=()):
    sel = select(table, res.tier)
    by_to = {}
    for n, to in sel:
        by_to.setdefault(to, []).append(n)
    out = []
    for to, names in by_to.items():
        out += K.run_set(res, names, timeout=to, known=known)
    return out


def finish_k(res, results, rule, samples, assumptions):
    ok = [r for r in results if r["status"] in ("ok", "known")]
    res.cov.update({
        "evaluations": len(results),
        "distinct_nontrivial": len([r for r in results if r["status"] == "ok" and r["covers"][1] > 0 and r["covers"][0] == r["covers"][1]]),
        "rule": rule,
        "samples": samples,
        "obligations": len(results),
        "discharged": len([r for r in results if r["status"] == "ok"]),
        "checks_decided_by_cbmc": sum(r["checks"] for r in results),
        "solver_s": round(sum((r["cbmc_s"] or 0) for r in results), 1),
        "exhaustive": False,
    })
    res.assumptions += assumptions


TRUST_K = ["rustc/Kani MIR->GOTO translation and CBMC 6.11 (CaDiCaL back end)",
           "Kani models of the allocator and std intrinsics",
           "harness crate /verif/kani (nd shim, reference models in the harness bodies)"]


def c02(res):
    r = kani_part(res, K_C02)
    finish_k(res, r,
             "one Kani harness = one obligation over all symbolic sizes<=2^16 / aligns in {1,2,4,8,16}; non-trivial = all kani::cover! "
             "witnesses of the harness (e.g. 'padding inserted') were satisfiable",
             [{"harness": "c02_layout_add_step", "obligation": "from any reachable LayoutBuilder state (size S<=2^17, align A), add(any layout): "
               "offset>=S, offset%align==0, padding<align; finish(): size%align==0, contains the field"}],
             TRUST_K + ["bounds: field size <= 65536, alignment <= 16, at most 3 symbolic fields after an arbitrary prefix"])


def c05(res):
    r = kani_part(res, K_C05)
    finish_k(res, r,
             "one Kani harness per concrete instantiation of Option/Result/Verdict; all payload values symbolic; non-trivial = both variants covered",
             [{"harness": "c05_opt_u16", "obligation": "for all v: Option<u16>: tag byte, payload at LayoutBuilder(u8,u16) offset, size/align = roto "
               "enum layout, value written at roto offsets reads back equal, untransform(transform(v)) == v"}],
             TRUST_K + ["instantiation list is the bound (30 types incl. one level of nesting); machine calling convention outside the claim"])


def finish_t(res, assumptions):
    res.level = "translation_validation"
    res.assumptions += assumptions


def c01(res):
    T.run_tv(res, {"F1", "F2", "F3", "F4", "F8", "F9"}, {"value"},
             note="returned value of the emitted code == reference value for all arguments on which the reference is defined")
    finish_t(res, T.TRUST_T + ["inputs on which integer division is undefined are excluded here and decided under C10",
                               "float arithmetic compared structurally (same IEEE operation on the same operands), NaNs identified"])


def c03(res):
    T.run_tv(res, {"F6"}, {"ledger"},
             note="ownership ledger per feasible path: no double drop, no use after drop, no drop of uninitialised memory, nothing live at return")
    finish_t(res, T.TRUST_T + ["host functions take ownership of by-value arguments (mk/eat/peek models in tv.py)"])


def c08(res):
    T.run_tv(res, {"F7", "F7R", "F6"}, {"trace"},
             note="sequence of host calls and their argument values == reference trace on every jointly feasible path pair")
    finish_t(res, T.TRUST_T)


def c10(res):
    T.run_tv(res, {"F1", "F9"}, {"trap"}, known_roles={k["role"] for k in known_findings() if k["property"] == "C10"},
             note="for every reached sdiv/udiv/srem/urem: is there an argument assignment with trapping operands? each model replayed in a child process")
    finish_t(res, T.TRUST_T)


CHECKS = {"C01": c01, "C02": c02, "C03": c03, "C05": c05, "C08": c08, "C10": c10}


def setup():
    K.build()
    T.build()
    return 0


def replay(pid, path):
    obj = json.load(open(path))
    if obj.get("engine") == "kani":
        K.build()
        rep = K.replay(obj["harness"], obj["concrete_vals"], miri="miri" in obj.get("replay", {}))
        how = K.reproduced(rep)
        print(json.dumps({k: v["rc"] for k, v in rep.items()}))
        for k, v in rep.items():
            print(f"--- {k}\n{v['tail']}")
        if how:
            print(f"VIOLATION property={pid} replay={path}")
            return 1
        return 0
    log("unknown replay format")
    return 2
