"""Per-property check definitions (what each ./check <ID> runs)."""
import json, os, re, shutil, subprocess, sys
from common import *
import kani_engine as K
import tv_engine as T
import mir_engine as MM

# ---------------------------------------------------------------- harness tables
# name -> (tier, timeout_s).  Timeouts are ~4x the time measured on the pinned tree.
def kh(mod, names, tier="quick", timeout=1500):
    return [(f"{mod}::{n}", tier, timeout) for n in names]

K_C02 = kh("c02_layout", ["c02_layout_add_step", "c02_layout_two_fields", "c02_layout_union",
                          "c02_layout_concat_offset_by", "c02_layout_matches_repr_c"])
K_C05 = kh("c05_mirror", ["c05_opt_u8", "c05_opt_u16", "c05_opt_u32", "c05_opt_u64", "c05_opt_i8", "c05_opt_i16",
                          "c05_opt_i32", "c05_opt_i64", "c05_opt_f32", "c05_opt_f64", "c05_opt_bool", "c05_opt_char",
                          "c05_opt_unit", "c05_opt_val3", "c05_opt_val24", "c05_opt_opt_u16", "c05_opt_opt_u64",
                          "c05_opt_res_u8_u32", "c05_res_u8_u64", "c05_res_u64_u8", "c05_res_i32_unit",
                          "c05_res_unit_unit", "c05_res_f32_char", "c05_res_opt_u16_bool", "c05_ver_u8_u64",
                          "c05_ver_u32_unit", "c05_ver_unit_unit", "c05_ver_unit_i16", "c05_ver_f64_bool",
                          "c05_ver_opt_u8_val3", "c05_ver_val9_u32", "c05_res_u64_val17"]) \
    + kh("c15_list", ["c15_option_bool_elements"], "quick", 2400)    # List<Option<bool>> built in Rust: strides of the stored representation


LEX3 = ["c06_ipv6_3", "c06_ipv4_3", "c06_two_char_3", "c06_one_char_3", "c06_as_number_3", "c06_hex_number_3", "c06_number_3",
        "c06_f_string_3", "c06_string_3", "c06_char_3", "c06_keyword_or_ident_3", "c06_f_string_part_3", "c06_err_span_3",
        "c06_shebang_3", "c06_parser_next_3"]
LEX4 = ["c06_ipv6_4", "c06_ipv4_4", "c06_as_number_4", "c06_hex_number_4", "c06_number_4", "c06_string_4", "c06_char_4",
        "c06_keyword_or_ident_4", "c06_number_ascii_5", "c06_ipv4_ascii_5", "c06_f_string_part_4", "c06_err_span_4",
        "c06_shebang_4", "c06_parser_next_4"]
K_C06 = kh("c06_lexer", LEX3, "quick", 3600) + kh("c06_lexer", LEX4, "thorough", 5400)
K_C09 = kh("c09_grammar", ["c09_number_ascii_4", "c09_hex_asn_ascii_4", "c09_ident_3", "c09_precedence_table", "c09_quoted_ascii_5"], "quick", 3600) \
    + kh("c09_grammar", ["c09_number_ascii_5", "c09_hex_asn_ascii_5", "c09_ident_4"], "thorough", 5400)
K_C10 = kh("c10_builtins", ["c10_prefix_new_total_v4", "c10_prefix_new_total_v6"], "quick", 1500)
K_C17 = kh("c17_strings", ["c17_bytes_view_2", "c17_bytes_get_3", "c17_lines_get_2"], "quick", 3600) \
    + kh("c17_strings", ["c17_bytes_view_3"], "thorough", 5400)
K_C20 = kh("c20_memory", ["c20_memory_write_read", "c20_memory_rejects", "c20_memory_dangling_frame", "c20_memory_offset_twice"], "quick", 2400)
K_C15 = kh("c15_list", ["c15_compute_capacity", "c15_eq_distinct_rust", "c15_eq_alias", "c15_eq_distinct_erased_len", "c15_eq_rust_lengths", "c15_option_bool_elements", "c15_contains_owned_empty"], "quick", 2400)
K_C16 = kh("c16_sched", ["c16_get_vs_push1_linearizable", "c16_len_vs_push1_linearizable",
                         "c16_full_get_vs_push1_before_lock", "c16_full_get_vs_push1_after_release"], "quick", 3600) \
    + kh("c16_sched", ["c16_get_vs_push4_realloc_site1"], "thorough", 5400)
THOROUGH_MEM = {"c16_sched::c16_get_vs_push4_realloc_site1": 48, "c16_sched::c16_full_get_vs_push1_before_lock": 24,
                "c16_sched::c16_full_get_vs_push1_after_release": 24}


def c15_generated():
    """(name, tier) of the generated operation-sequence harnesses, read from the generated source"""
    src = open(os.path.join(VERIF, "kani", "src", "c15_list_gen.rs")).read()
    return re.findall(r'\("(c15_seq_\w+)", "(quick|thorough)"\)', src)


def select(table, tier):
    return [(n, to) for (n, t, to) in table if t == "quick" or tier == "thorough"]


def kani_part(res, table, known=(), hunt=()):
    """hunt: [(name, timeout_s, mem_gb)] obligations that are only *attempted to refute* in the quick tier"""
    sel = select(table, res.tier)
    items = [(n, to, THOROUGH_MEM.get(n, 16)) for n, to in sel]
    hunt_names = set()
    if res.tier == "quick":
        for n, to, mem in hunt:
            if n not in [x for x, _ in sel]:
                items.append((n, to, mem))
                hunt_names.add(n)
    return K.run_set(res, items, timeout=1800, known=known, hunt=hunt_names)


def finish_k(res, results, rule, samples, assumptions):
    ok = [r for r in results if r["status"] in ("ok", "known")]
    res.cov.update({
        "evaluations": len(results),
        "distinct_nontrivial": len([r for r in results if r["status"] == "ok" and r["covers"][1] > 0 and r["covers"][0] == r["covers"][1]]),
        "rule": rule,
        "samples": samples,
        "obligations": len(results),
        "discharged": len([r for r in results if r["status"] == "ok"]),
        "undecided_refutation_attempts": [r["harness"] for r in results if str(r["status"]).startswith("undecided")],
        "checks_decided_by_cbmc": sum(r["checks"] for r in results),
        "solver_s": round(sum((r["cbmc_s"] or 0) for r in results), 1),
        "exhaustive": False,
    })
    res.assumptions += assumptions


TRUST_K = ["rustc/Kani MIR->GOTO translation and CBMC 6.11 (CaDiCaL back end)",
           "Kani models of the allocator and std intrinsics",
           "harness crate /verif/kani (nd shim, reference models in the harness bodies)"]


def c02(res):
    r = kani_part(res, K_C02)
    T.run_tv(res, {"F5", "F11", "F13"}, {"value", "trace"}, note="strings are values; lists are shared (copies observe pushes, also inside for); records/enums: construct, copy, mutate one copy, compare, match with guards; field contents symbolic")
    res.level = "model_checking"
    finish_k(res, r,
             "one Kani harness = one obligation over all symbolic sizes<=2^16 / aligns in {1,2,4,8,16}; non-trivial = all kani::cover! "
             "witnesses of the harness (e.g. 'padding inserted') were satisfiable",
             [{"harness": "c02_layout_add_step", "obligation": "from any reachable LayoutBuilder state (size S<=2^17, align A), add(any layout): "
               "offset>=S, offset%align==0, padding<align; finish(): size%align==0, contains the field"}],
             TRUST_K + ["bounds: field size <= 65536, alignment <= 16, at most 3 symbolic fields after an arbitrary prefix"])


def c05(res):
    r = kani_part(res, K_C05)
    T.run_tv(res, {"F10", "F10Z", "F7", "F13"}, {"value", "trace"}, reject_is_violation=True,
             known_roles={k["role"] for k in known_findings() if k["property"] == "C05"}, note="identity functions, pass-through to host functions, Option/Verdict built in the script and read by Rust "
             "and vice versa: bytes returned/passed == independent C-layout encoding of the expected value, for all values")
    res.level = "model_checking"
    finish_k(res, r,
             "one Kani harness per concrete instantiation of Option/Result/Verdict; all payload values symbolic; non-trivial = both variants covered",
             [{"harness": "c05_opt_u16", "obligation": "for all v: Option<u16>: tag byte, payload at LayoutBuilder(u8,u16) offset, size/align = roto "
               "enum layout, value written at roto offsets reads back equal, untransform(transform(v)) == v"}],
             TRUST_K + ["instantiation list is the bound (30 types incl. one level of nesting); machine calling convention outside the claim"])


def finish_t(res, assumptions):
    res.level = "translation_validation"
    res.assumptions += assumptions


def c01(res):
    T.run_tv(res, {"F1", "F2", "F3", "F4", "F5", "F6", "F6R", "F7", "F7R", "F8", "F9", "F10", "F11", "F12", "F12E", "F13"}, {"value"},
             note="returned value of the emitted code == reference value for all arguments on which the reference is defined")
    finish_t(res, T.TRUST_T + ["inputs on which integer division is undefined are excluded here and decided under C10",
                               "float arithmetic compared structurally (same IEEE operation on the same operands), NaNs identified"])


def c03(res):
    T.run_tv(res, {"F6", "F6R", "F11", "F13"}, {"ledger"}, known_roles={k["role"] for k in known_findings() if k["property"] == "C03"},
             note="ownership ledger per feasible path: no double drop, no use after drop, no drop of uninitialised memory, nothing live at return")
    finish_t(res, T.TRUST_T + ["host functions take ownership of by-value arguments (mk/eat/peek models in tv.py)"])


def c08(res):
    T.run_tv(res, {"F7", "F7R", "F6", "F6R", "F11", "F12E", "F13"}, {"trace"},
             note="sequence of host calls and their argument values == reference trace on every jointly feasible path pair")
    finish_t(res, T.TRUST_T)


def c06(res):
    # Span::character_range on 2 bytes: CBMC refutes a wrong range in ~5 min but needs more than 14 GB to prove the correct one
    r = kani_part(res, K_C06, hunt=[("c06_lexer::c06_char_range_2", 600, 14)])
    finish_k(res, r,
             "one Kani harness per token recogniser: EVERY UTF-8 string of <= 3 bytes (thorough: 4 bytes, ASCII 5) is symbolic input; "
             "non-trivial = the harness's reachability witnesses (e.g. a full-length non-ASCII input was handled) are satisfiable",
             [{"harness": "c06_keyword_or_ident_3", "obligation": "for all UTF-8 s, |s| <= 3: keyword_or_ident(s) does not panic; if it fires the span "
               "is 0..end, 0 < end <= |s|, end on a char boundary, cursor == span"},
              {"harness": "c06_err_span_3", "obligation": "with next_token replaced by 'skips any prefix, then declines': next_inner's error span lies "
               "inside the input on char boundaries"},
              {"harness": "c06_parser_next_3", "obligation": "same stub: whatever Parser::next / run_parser report (invalid token, end of input, input not "
               "consumed) cites start <= end <= |s| on char boundaries"},
              {"harness": "c06_shebang_3", "obligation": "skip_shebang does not panic, leaves the cursor on a char boundary inside the input, and consumes "
               "exactly the first line of an input starting with #! (or nothing)"}],
             TRUST_K + ["stub: Lexer::record_almost_keyword -> no-op (diagnostic hint only)",
                        "stub (err_span only): Lexer::next_token -> consumes an arbitrary boundary-aligned prefix and declines",
                        "bound: tokens of at most 3 (quick) / 4-5 (thorough) bytes; composition argument in DESIGN.md 5/C06",
                        "outside: the parser above its token layer (Parser::next), type checker, module loading, report rendering other than Span arithmetic"])


def c09(res):
    r = kani_part(res, K_C09)
    T.run_tv(res, {"F2", "F8"}, {"value", "trace"}, reject_is_violation=True,
             note="literal spellings denote the value an independent decoder assigns; unparenthesised operator chains == the tree built from the documented precedence table")
    finish_k(res, r,
             "Kani: recognisers vs reference scanners written from the documented grammar, every ASCII string <= 4 bytes (ident: UTF-8 <= 3); "
             "precedence: all 13x13 operator pairs symbolic. Engine T: literal cells F2 and operator chains F8, all argument values symbolic",
             [{"harness": "c09_number_ascii_4", "obligation": "for all ASCII s, |s| <= 4: number(s) fires iff the grammar says s starts with a numeric literal; "
               "same int/float classification, same digits/suffix split, same extent"},
              {"harness": "c09_precedence_table", "obligation": "for all operator pairs (a, b): relative_associativity == documented table"}],
             TRUST_K + T.TRUST_T + ["reference scanners in kani/src/c09_grammar.rs", "escape decoding (rustc_literal_escaper) and IP literal parsing (std::net) outside the claim"])
    res.cov["evaluations"] = res.cov.get("evaluations", 0) + res.cov["tv"]["programs"]


def c10(res):
    known = [(r"c10_prefix_new_total", r"Prefix::new_relaxed is Err", next((k["text"] for k in known_findings() if k.get("role") == "prefix-new-unwrap"), "Prefix.new unwraps"))]
    r = kani_part(res, K_C10, known=known)
    T.run_tv(res, {"F1", "F9"}, {"trap"}, known_roles={k["role"] for k in known_findings() if k["property"] == "C10"},
             note="for every reached sdiv/udiv/srem/urem: is there an argument assignment with trapping operands? each model replayed in a child process")
    finish_k(res, r, "engine T: every integer division/remainder instruction reached in the F1/F9 corpus is an obligation (trapping operands reachable?); "
             "Kani: argument-validating kernels behind built-ins (string views under C17, list accessors under C15, Prefix::new_relaxed here)",
             [{"harness": "c10_prefix_new_total_v4", "obligation": "for all (ipv4, len: u8): Prefix::new_relaxed(ip, len) is Ok (Prefix.new unwraps it inside an extern \"C\" trampoline)"}],
             TRUST_K + T.TRUST_T)
    res.level = "translation_validation"


def c15(res):
    gen = [(f"c15_list_gen::{n}", t, 3600) for n, t in c15_generated()]
    r = kani_part(res, K_C15 + gen)
    finish_k(res, r,
             "one Kani harness per (element type, pre-state, operation-kind sequence) - the kinds are enumerated, element values and get "
             "indices are symbolic, CBMC's pointer checks cover every access; plus capacity arithmetic and == termination",
             [{"harness": "c15_seq_u64_p2_p_h", "obligation": "two handles on one storage holding 2 symbolic elements; push via a, get(i) via b for all i <= len+1 or usize::MAX == array model"},
              {"harness": "c15_eq_distinct_rust", "obligation": "a == b on two distinct one-element lists terminates (no lock on a held mutex) with the element-wise answer"}],
             TRUST_K + ["stub: std::sync::Mutex::lock -> try_lock, failing check 'DEADLOCK' if the mutex is held (single-threaded world)",
                        "stub (swap harnesses): core::ptr::swap_nonoverlapping -> byte-wise exchange loop",
                        "outside (measured over budget): contains/index/concat/+ on two lists, to_vec/from, join, growth across the first reallocation, "
                        "zero-sized and drop-tracked element types, script-side list_get"])


def c16(res):
    # the relocation schedules start from a full list built directly (hook full_u64_list): one push by the other thread moves
    # the storage, and CBMC proves them in ~7 min / < 20 GB. The older formulation (4 pushes from a 1-element list) needs
    # 48 GB / 25 min and stays in the thorough tier.
    r = kani_part(res, K_C16)
    finish_k(res, r,
             "schedule = symbolic input: at the schedule points of the running operation (hook H3 before each lock, hook H7 after each release) a "
             "kani::any() bit decides whether the other thread's whole operation runs there; CBMC's deallocated-object checks + linearisability against the array model",
             [{"harness": "c16_get_vs_push1_linearizable", "obligation": "get(i), i <= 3 symbolic, on a 2-element list vs one push by the other thread at any "
               "schedule point: result = value under the order of the critical sections"},
              {"harness": "c16_full_get_vs_push1_after_release", "obligation": "get(i), i <= 3 symbolic, on a full 4-element list (len == capacity) vs one push "
               "(reallocation 4 -> 8) at the point after get's lock release (and, `_before_lock`, at List::get's own schedule point): no access through the old buffer, element unchanged"},
              {"harness": "c16_get_vs_push4_realloc_site1 (thorough, 48 GB)", "obligation": "get(0) on a 1-element list vs 4 pushes (reallocation) at the schedule point of List::get"}],
             TRUST_K + ["sequentialisation: preempting operations run atomically (the per-operation mutex guarantees this for the critical sections)",
                        "preemption depth 1, one preempting thread, one storage", "stub: Mutex::lock -> try_lock / DEADLOCK",
                        "hook H7: under the cfg the list's Mutex is a wrapper that raises a schedule point after every release; hook full_u64_list builds the state 'len == capacity == 4' directly",
                        "true parallelism and weak-memory effects outside the claim; ffi::list_get, to_vec, ==, concat, contains/index schedules over budget (to_vec from a full list: "
                        "out of memory at 20-30 GB) - not claimed"])


def c17(res):
    known = [(r"c17_lines_get", r"lines.get", next((k["text"] for k in known_findings() if k.get("role") == "string-lines-get"), "StringLines::get"))]
    r = kani_part(res, K_C17, known=known)
    MM.run_b(res)
    finish_k(res, r,
             "one Kani harness per string-view method group (lines.slice exhausted 16 GB and is not in the frozen set): every UTF-8 (bytes view) / ASCII (lines view) string of <= 2 bytes (thorough 3) and every "
             "index in {0..len+1} u {usize::MAX}; result compared with explicit byte-loop references",
             [{"harness": "c17_bytes_view_2", "obligation": "for all s, i, j: bytes.len == |s|; bytes.get(i) = char starting at byte i or None off-boundary/out of range; "
               "bytes.slice(i, j) = s[i..j] iff i <= j <= |s| on boundaries"}],
             TRUST_K + ["engine B (tv/builtins_b.py): float built-ins floor/ceil/round/abs/sqrt/is_nan/is_infinite/is_finite of f32 and f64 from the MIR bodies of their registered wrappers "
                        "against z3's IEEE-754 operations for every bit pattern (pow: argument order only, powf uninterpreted); trusts z3's FP theory, the MIR-slice interpreter and "
                        "that the JIT calls the registered wrapper (engine T decides the call itself)",
                        "engine B delegations (tv/builtins_b.py, tv/strdeleg.py): 9 IpAddr/Prefix methods and 12 String methods - the MIR body registered under the script-visible name is the "
                        "documented std / inetnum operation applied to the parameters in order (uninterpreted functions; what std computes is not decided)",
                        "outside: char view and lines.len (std iterator adaptors exceed 16 GB), StringBuf, String.append/split*/from_chars, List.join, to_string"])
    b = res.cov.get("builtins", {})
    n_b = b.get("decided", 0) + len(b.get("delegations", {}).get("decided", [])) + len(b.get("string_delegations", {}).get("decided", []))
    res.cov["evaluations"] = res.cov.get("evaluations", 0) + n_b
    res.cov["obligations"] = res.cov.get("obligations", 0) + n_b
    res.cov["discharged"] = res.cov.get("discharged", 0) + n_b


def c20(res):
    r = kani_part(res, K_C20)
    MM.run_m(res)
    MM.run_eq(res)
    finish_k(res, r,
             "Kani on the evaluator's checked memory model: all allocation sizes <= 16, offsets <= 17, widths {1,2,4,8}; 'must stop' harnesses count only the "
             "harness's own MUST-STOP assertion (the evaluator's asserts firing are the expected loud stops)",
             [{"harness": "c20_memory_rejects", "obligation": "whenever a read/write completes, it was in bounds and aligned"}],
             TRUST_K + T.TRUST_T + ["/verif/tv/mir.py (MIR-slice interpreter: core operators modelled by name, eval_operand and HashMap::insert modelled as variable lookup/store)",
                                    "engine M covers straight-line scalar programs only: Jump/Switch/Call/Return plumbing, CallRuntime, memory instructions and therefore "
                                    "host-call-sequence equality are outside; per-instruction agreement is what is decided"])
    res.level = "translation_validation"
    res.cov["evaluations"] = res.cov.get("evaluations", 0) + res.cov["mir"]["decided"]


CHECKS = {"C01": c01, "C02": c02, "C03": c03, "C05": c05, "C06": c06, "C08": c08, "C09": c09, "C10": c10, "C15": c15, "C16": c16,
          "C17": c17, "C20": c20}


def setup():
    K.build()
    T.build()
    return 0


def tvrun_prefixes():
    sys.path.insert(0, os.path.join(VERIF, "tv"))
    import tvrun
    return tvrun.HOST_EVENT_PREFIXES


def replay(pid, path):
    obj = json.load(open(path))
    if obj.get("engine") == "kani":
        K.build()
        rep = K.replay(obj["harness"], obj["concrete_vals"], miri="miri" in obj.get("replay", {}))
        how = K.reproduced(rep)
        print(json.dumps({k: v["rc"] for k, v in rep.items()}))
        for k, v in rep.items():
            print(f"--- {k}\n{v['tail']}")
        if how:
            print(f"VIOLATION property={pid} replay={path}")
            return 1
        return 0
    if obj.get("engine") == "tv-compile":
        import tempfile
        T.build()
        sys.path.insert(0, os.path.join(VERIF, "tv"))
        import tv as TV
        d = tempfile.mkdtemp(dir=BUILD)
        script = os.path.join(d, "replay.roto")
        open(script, "w").write(obj["source"])
        TV.dump_programs([script], d)
        r = json.load(open(os.path.join(d, "replay.json")))
        print("compile:", r.get("compile"), (r.get("report") or "")[:400])
        shutil.rmtree(d, ignore_errors=True)
        if r.get("compile") != "ok":
            print(f"VIOLATION property={pid} replay={path}")
            return 1
        return 0
    if obj.get("engine") == "irvalue-eq":
        T.build()
        sys.path.insert(0, os.path.join(VERIF, "tv"))
        import tv as TV, irvalue_eq
        d = os.path.join(BUILD, "irvalue_eq")
        os.makedirs(d, exist_ok=True)
        script = os.path.join(d, "replay.roto")
        open(script, "w").write(obj["replay"]["script"])
        rep = irvalue_eq.replay(TV.EXTRACT, script)
        print("real evaluator / real JIT:", rep)
        if rep.get("differs"):
            print(f"VIOLATION property={pid} replay={path}")
            return 1
        return 0 if "error" not in rep else 2
    if obj.get("engine") == "builtins":
        T.build()
        sys.path.insert(0, os.path.join(VERIF, "tv"))
        import tv as TV, builtins_b
        again = builtins_b.replay_again(TV.EXTRACT, os.path.join(BUILD, "builtins"), obj["replay"])
        if again is None:
            log("replay could not run")
            return 2
        if again:
            print(f"VIOLATION property={pid} replay={path}")
            return 1
        return 0
    if obj.get("engine") in ("tv", "mir"):
        import tempfile
        T.build()
        sys.path.insert(0, os.path.join(VERIF, "tv"))
        import tv as TV
        d = tempfile.mkdtemp(dir=BUILD)
        script = os.path.join(d, "replay.roto")
        open(script, "w").write(obj["source"])
        real = TV.run_real(script, "main", obj["signature"], obj["args"], child=True, leakcheck=(obj.get("kind") == "ledger"))
        print("real JIT run:", json.dumps(real)[:600])
        again = False
        if obj.get("engine") == "mir":
            rc, out, _ = run([TV.EXTRACT, "eval", script, obj["types"]] + [hex(a) for a in obj["args"]], timeout=60)
            print("real evaluator run:", out.strip().split("\n")[-1])
            try:
                ev = json.loads(out.strip().split("\n")[-1]).get("eval")
                jit = (real.get("out") or {}).get("ret")
                again = ev not in (None, "loud-stop", "none", "other") and jit is not None and int(ev, 16) != int(jit, 16)
            except Exception:
                again = False
        elif obj["kind"] == "trap":
            again = real.get("signal") is not None
        elif real.get("signal") is not None or real.get("out") is None:
            again = True
        elif obj["kind"] == "value":
            want = obj["replay"].get("want")
            got = real["out"].get("ret")
            norm = lambda x: ({k: norm(v) for k, v in x.items()} if isinstance(x, dict) else (int(x, 16) if isinstance(x, str) and x.startswith("0x") else x))
            print("reference value:", want, "real:", got)
            again = norm(want) != norm(got)
        elif obj["kind"] == "trace":
            want = obj["replay"].get("want")
            got = []
            for e in real["out"]["events"]:
                p = e.split()
                if p[0] == "call":
                    got.append(p[1] + " " + " ".join(p[3:] if p[1] in ("eat", "peek") else p[2:]))
                elif p[0].startswith(tvrun_prefixes()):
                    got.append(e)
            print("reference trace:", want, "real:", got)
            import tvrun
            again = len(want) != len(got) or any(not tvrun.same_event(w, g) for w, g in zip(want, got))
        elif obj["kind"] == "ledger":
            import tvrun
            ok, det = tvrun.confirm_ledger(real["out"])
            print(det)
            again = ok
        shutil.rmtree(d, ignore_errors=True)
        if again:
            print(f"VIOLATION property={pid} replay={path}")
            return 1
        return 0
    log("unknown replay format")
    return 2
