"""Engine M glue: dump the MIR of /repo's current tree, run tv/c20.py over the straight-line programs of the corpus."""
import subprocess
from concurrent.futures import ThreadPoolExecutor
import glob, json, os, shutil, sys, time, multiprocessing as mp
from common import *
sys.path.insert(0, os.path.join(VERIF, "tv"))
import tv_engine

MIRDIR = os.path.join(BUILD, "mir")
_state = {}


def dump_mir():
    os.makedirs(MIRDIR, exist_ok=True)
    tgt = os.path.join(MIRDIR, "target")
    # force rustc to run again (an up-to-date fingerprint would print nothing)
    for p in glob.glob(os.path.join(tgt, "debug", ".fingerprint", "roto-*")):
        shutil.rmtree(p, ignore_errors=True)
    e = env_base()
    e.pop("RUSTFLAGS", None)
    t0 = time.time()
    out = os.path.join(MIRDIR, "roto.mir")
    with open(out, "w") as fo, open(os.path.join(MIRDIR, "err.log"), "w") as fe:
        import subprocess
        rc = subprocess.call(["cargo", "+nightly", "rustc", "--offline", "--lib", "--no-default-features", "--target-dir", tgt, "--",
                              "-Zunpretty=mir", "-C", "debug-assertions=off", "-C", "overflow-checks=on"], cwd=REPO, env=e, stdout=fo, stderr=fe)
    if rc != 0 or os.path.getsize(out) < 100000:
        log(open(os.path.join(MIRDIR, "err.log")).read()[-3000:])
        log("MIR dump failed")
        raise SystemExit(2)
    _state["dump_s"] = round(time.time() - t0, 1)
    return out


_MIR = None
_PROGS = {}


def _init(mir_path, repo):
    global _MIR
    import mir as M
    _MIR = M.Mir(open(mir_path).read(), repo)


def _one(name):
    import c20, tvrun
    d = json.load(open(os.path.join(tvrun.WORK, "dump", name + ".json")))
    t0 = time.time()
    try:
        o = c20.check_program_cf(_MIR, _PROGS[name], d)
    except Exception:
        import traceback
        o = {"status": "unsupported", "reason": "internal: " + traceback.format_exc()[-500:], "queries": 0, "finding": None, "profiles": {}}
    o["name"] = name
    o["secs"] = round(time.time() - t0, 2)
    return o


def run_m(res):
    tv_engine.build()
    import gen, tvrun, tv, lang
    mir_path = dump_mir()
    # scalar programs, control flow, script functions, records and enums (memory instructions, calls); families whose programs
    # need host calls / strings / lists (CallRuntime, InitString, Clone, Drop, ..) are outside engine M by design
    progs = [p for p in gen.corpus(res.seed, res.tier) if (p.meta["family"] in ("F1", "F2", "F4", "F5", "F8", "F9", "F10", "F12") and not p.meta["name"].startswith("f2_string"))
             or (p.meta["family"] == "F3" and int(p.meta["name"].split("_")[-1]) < (60 if res.tier == "quick" else 400))]
    shutil.rmtree(tvrun.WORK, ignore_errors=True)
    os.makedirs(os.path.join(tvrun.WORK, "src"))
    os.makedirs(os.path.join(tvrun.WORK, "dump"))
    paths = []
    for p in progs:
        _PROGS[p.meta["name"]] = p
        f = os.path.join(tvrun.WORK, "src", p.meta["name"] + ".roto")
        open(f, "w").write(lang.program_src(p))
        paths.append(f)
    tv.dump_programs(paths, os.path.join(tvrun.WORK, "dump"))
    t0 = time.time()
    with mp.Pool(NCPU, initializer=_init, initargs=(mir_path, REPO)) as pool:
        results = pool.map(_one, [p.meta["name"] for p in progs], chunksize=8)
    ok = [r for r in results if r["status"] == "ok"]
    unsup = [r for r in results if r["status"] != "ok"]
    for r in results:
        f = r.get("finding")
        if not f:
            continue
        prog = _PROGS[r["name"]]
        entry = [x for x in prog.fns if x.name == "main"][0]
        script = os.path.join(tvrun.WORK, "src", r["name"] + ".roto")
        types = ",".join(t for _, t in entry.params)
        rc, out, _ = run([tv.EXTRACT, "eval", script, types] + [hex(a) for a in f["args"]], timeout=60)
        try:
            ev = json.loads(out.strip().split("\n")[-1])
        except Exception:
            ev = {"error": out[-200:]}
        real = tv.run_real(script, "main", tv.sig_of(entry), f["args"], child=True)
        jit = (real.get("out") or {}).get("ret")
        evv = ev.get("eval")
        differs = evv not in (None, "loud-stop", "none", "other") and jit is not None and int(evv, 16) != (int(jit, 16) if jit != "unit" else -1)
        if f.get("kind", "").startswith("compiled code traps"):
            differs = real.get("signal") is not None and evv not in ("loud-stop",)
        if differs:
            res.violation(f"{r['name']}: evaluator completes with {evv}, compiled code returns {jit} for arguments {[hex(a) for a in f['args']]} ({f['profile']})",
                          {"engine": "mir", "program": r["name"], "source": open(script).read(), "args": f["args"], "types": types,
                           "signature": tv.sig_of(entry), "evaluator": ev, "compiled": real, "solver": f})
        else:
            res.inconclusive.append(f"{r['name']}: solver model {f} not reproduced by the real evaluator/JIT (eval={ev}, jit={real}) - encoder problem")
    # translator validation (same idea as tv/tvalidate.py): for programs on which the solver found no disagreement the REAL
    # evaluator and the REAL JIT are run on two concrete argument vectors; "evaluator completes with another value than the
    # JIT" there means the MIR/CLIF encodings misrepresent the code: not decided (exit 2)
    import tvalidate
    v_runs = v_skip = 0
    v_bad = []
    todo = [r["name"] for r in ok if not r.get("finding")][:1500]
    model_paths = {r["name"]: r.get("completing_paths", {}) for r in ok}
    with ThreadPoolExecutor(NCPU) as ex:
        for name, out_ in ex.map(lambda n: (n, _validate_pair(n, tv, tvalidate, model_paths.get(n))), todo):
            v_runs += out_[0]
            v_skip += out_[1]
            v_bad += [(name, b) for b in out_[2]]
    for name, b in v_bad[:5]:
        res.inconclusive.append(f"engine M translator validation: {name}: no disagreement found by the solver, yet the real evaluator completes with {b['eval']} "
                                f"and the real JIT returns {b['jit']} for {b['args']}: the encoding misrepresents the code - not decided")
    kinds = {}
    for r in ok:
        import c20
        for item_lir in json.load(open(os.path.join(tvrun.WORK, "dump", r["name"] + ".json")))["lir"].values():
            for text in item_lir:
                k = text.split(" ", 1)[0].split("(")[0]
                kinds[k] = kinds.get(k, 0) + 1
    res.cov["mir"] = {
        "programs": len(results), "decided": len(ok), "unsupported": len(unsup),
        "unsupported_list": [{"program": r["name"], "why": r["reason"][:120]} for r in unsup[:25]],
        "solver_queries": sum(r["queries"] for r in results), "solver_s": round(sum(r["secs"] for r in results), 1),
        "mir_dump_s": _state.get("dump_s"), "wall_s": round(time.time() - t0, 1),
        "lir_instruction_instances_interpreted": kinds,
        "evaluator_loud_on_every_path": len([r for r in ok if r.get("completing_paths") and not any(r["completing_paths"].values())]),
        "translator_validation": {"concrete_runs_real_evaluator_vs_real_jit": v_runs, "skipped_loud_stop_or_trap": v_skip, "mismatches": len(v_bad)},
        "functions_encoded": ["lir::eval::eval (instruction arms Assign/Add/Sub/Mul/Div/Mod/FDiv/IntCmp/FloatCmp/Not/Negate/Offset/Write/Read/Copy, from the nightly MIR dump of /repo)",
                              "lir::value::IrValue::{eq, as_bool, as_u64, as_i64, as_f64, switch_on, as_vec, from_slice}, IrType::bytes (MIR bodies)",
                              "eval::Memory as tv/c20.py MemModel (decided against the real Memory by the Kani harnesses c20_memory_*); Jump/Switch/Call/Return and eval's prologue modelled after eval.rs", "pkg.main of each program (emitted CLIF, engine T)"],
        "profiles": ["overflow-checks=on (dev)", "overflow-checks=off (release)"],
        "sample": [{"program": r["name"], "profiles": r["profiles"]} for r in ok[:4]],
    }
    # programs with control flow / calls are outside by design; an instruction arm that used to be interpretable and no longer
    # is (a call or statement the interpreter does not model) must not count as "held"
    by_design = ("LIR instruction CallRuntime", "LIR instruction Initialize", "LIR instruction Clone", "LIR instruction Drop", "LIR instruction Eq",
                 "LIR instruction InitString", "LIR instruction FunctionAddress", "LIR instruction ConstantAddress",
                 "entry function takes or returns a non-scalar", "path budget exceeded")
    for r in unsup:
        if not any(b in r["reason"] for b in by_design):
            res.inconclusive.append(f"engine M: {r['name']}: {r['reason'][:200]}")
    if len(results) and len(unsup) / len(results) > 0.25:
        res.inconclusive.append(f"engine M: {len(unsup)} of {len(results)} programs unsupported")
    res.cov["programs"] = res.cov.get("programs", 0) + len(ok)
    res.cov["disagreements_checked"] = res.cov.get("disagreements_checked", 0) + sum(r["queries"] for r in results)
    res.cov.setdefault("samples", [])
    res.cov["samples"] += [{"program": r["name"], "source": open(os.path.join(tvrun.WORK, "src", r["name"] + ".roto")).read()[:300], "verdict_per_profile": r["profiles"]} for r in ok[:3]]
    return results


def _validate_pair(name, tv, tvalidate, model_paths=None):
    prog = _PROGS[name]
    entry = [x for x in prog.fns if x.name == "main"][0]
    vs = tvalidate.vectors(prog, 2)
    if vs is None:
        return 0, 0, []
    import tvrun
    script = os.path.join(tvrun.WORK, "src", name + ".roto")
    types = ",".join(t for _, t in entry.params)
    runs = skipped = 0
    bad = []
    for args in vs:
        try:
            rc, out, _ = run([tv.EXTRACT, "eval", script, types] + [hex(a) for a in args], timeout=10)
            ev = json.loads(out.strip().split("\n")[-1]).get("eval")
            p = subprocess.run([tv.EXTRACT, "run-child", script, "main", tv.sig_of(entry)] + [hex(a) for a in args], capture_output=True, text=True, timeout=10)
            real = json.loads(p.stdout.strip().split("\n")[-1])
        except Exception:
            skipped += 1
            continue
        jit = (real.get("out") or {}).get("ret")
        if ev in (None, "loud-stop", "none", "other") or jit is None or real.get("signal") is not None or jit == "unit":
            skipped += 1
            continue
        runs += 1
        if model_paths and model_paths.get("on") == 0 and model_paths.get("off") == 0:
            # the model of the evaluator stops loudly on every input, the real evaluator completed on this one
            bad.append({"args": [hex(a) for a in args], "eval": ev + " (the encoding says: loud stop on every input)", "jit": jit})
            continue
        try:
            e_i, j_i = int(ev, 16), int(jit, 16)
        except (TypeError, ValueError):
            skipped += 1
            runs -= 1
            continue
        if e_i != j_i and not (entry.ret in ("f32", "f64") and tvrun.is_nan_hex(ev) and tvrun.is_nan_hex(jit)):
            bad.append({"args": [hex(a) for a in args], "eval": ev, "jit": jit})
    return runs, skipped, bad


def run_eq(res):
    """unit obligation on <IrValue as PartialEq>::eq (tv/irvalue_eq.py), from the same MIR dump as run_m"""
    tv_engine.build()
    import tv, mir as M, irvalue_eq
    mir_path = os.path.join(MIRDIR, "roto.mir")
    if not os.path.exists(mir_path) or not _state.get("dump_s"):
        mir_path = dump_mir()
    try:
        mirobj = M.Mir(open(mir_path).read(), REPO)
        rows, queries, secs = irvalue_eq.check(mirobj, tv.EXTRACT, os.path.join(BUILD, "irvalue_eq"))
    except M.Unsupported as e:
        res.inconclusive.append(f"engine M (IrValue::eq): {e}")
        return
    for r in rows:
        if r["status"] == "violation":
            res.violation(r["detail"], {"engine": "irvalue-eq", "left": r["left"], "right": r["right"], "replay": r["replay"], "counterexample": r["counterexample"]})
        elif r["status"] == "inconclusive":
            res.inconclusive.append(f"engine M (IrValue::eq): {r['why'][:300]}")
    res.cov["irvalue_eq"] = {
        "functions_encoded": ["<IrValue as PartialEq>::eq (MIR body), every ordered pair of the 14 variants, payloads symbolic"],
        "pairs": len(rows), "stop_loudly": sum(1 for r in rows if r.get("outcome") == "stops loudly"),
        "complete_and_equal_payload_equality": sum(1 for r in rows if r["status"] == "ok" and r.get("outcome") == "completes"),
        "complete_not_judged": sum(1 for r in rows if str(r.get("outcome", "")).startswith("completes (")),
        "solver_queries": queries, "wall_s": round(secs, 2),
    }
    res.cov["evaluations"] = res.cov.get("evaluations", 0) + len(rows)


def run_b(res):
    """Engine B (tv/builtins.py): the float built-ins of the default runtime, from the MIR dump, against their IEEE-754 meaning."""
    tv_engine.build()
    import tv, builtins_b
    mir_path = dump_mir()
    rows, secs = builtins_b.check_all(open(mir_path).read(), REPO, tv.EXTRACT, os.path.join(BUILD, "builtins"))
    decided = [r for r in rows if r["status"] == "ok"]
    for r in rows:
        if r["status"] == "violation":
            res.violation(r["detail"], {"engine": "builtins", "type": r["type"], "name": r["name"], "replay": r["replay"], "counterexample": r["counterexample"]})
        elif r["status"] == "inconclusive":
            res.inconclusive.append(f"engine B: {r['type']}.{r['name']}: {r['why'][:200]}")
    drows = builtins_b.check_delegations(open(mir_path).read(), REPO, tv.EXTRACT, os.path.join(BUILD, "builtins"))
    for r in drows:
        if r["status"] == "violation":
            res.violation(r["detail"], {"engine": "builtins", "type": r["type"], "name": r["name"], "replay": r["replay"], "probes_failed": r["probes_failed"]})
        elif r["status"] == "inconclusive":
            res.inconclusive.append(f"engine B: {r['type']}.{r['name']}: {r['why'][:240]}")
    import strdeleg
    srows, ssecs = strdeleg.check(open(mir_path).read(), REPO, tv.EXTRACT, os.path.join(BUILD, "builtins"))
    for r in srows:
        if r["status"] == "violation":
            res.violation(r["detail"], {"engine": "builtins", "type": r["type"], "name": r["name"], "replay": r["replay"], "probes_failed": r["probes_failed"]})
        elif r["status"] == "inconclusive":
            res.inconclusive.append(f"engine B: String.{r['name']}: {r['why'][:240]}")
    expected = {(t, n) for t in ("f32", "f64") for n in ("floor", "ceil", "round", "abs", "sqrt", "pow", "is_nan", "is_infinite", "is_finite")}
    missing = expected - {(r["type"], r["name"]) for r in rows}
    if missing:
        # a documented float built-in that is no longer registered under its name cannot be "held"
        res.inconclusive.append(f"engine B: documented float built-ins not found among the registrations in the MIR dump: {sorted(missing)}")
    res.cov["builtins"] = {
        "functions_encoded": [f"{r['type']}.{r['name']} (MIR body of its registered wrapper)" for r in rows if r["status"] != "no-spec"],
        "decided": len(decided), "no_documented_counterpart_modelled": [f"{r['type']}.{r['name']}" for r in rows if r["status"] == "no-spec"],
        "solver_queries": sum(r["queries"] for r in rows), "solver_s": round(sum(r["solver_s"] for r in rows), 2), "wall_s": round(secs, 1),
        "mir_dump_s": _state.get("dump_s"),
        "bounds": "none on the arguments (every f32/f64 bit pattern; all NaNs one value); powf uninterpreted (argument order only)",
        "bodies": {f"{r['type']}.{r['name']}": r.get("body", "") for r in decided},
        "string_delegations": {"decided": [f"String.{r['name']}" for r in srows if r["status"] == "ok"], "bodies": {r["name"]: r.get("body", "") for r in srows},
                               "solver_queries": sum(r["queries"] for r in srows), "wall_s": ssecs,
                               "what": "the body registered under each String method name (basic.rs wrapper -> RotoString::m -> str::m, from the MIR dump) equals the "
                                       "uninterpreted function of the documented `str` operation applied to the parameters in order; Deref/Into/AsRef/field projections "
                                       "are identities; mismatches confirmed on concrete probes against the real JIT"},
        "delegations": {"decided": [f"{r['type']}.{r['name']}" for r in drows if r["status"] == "ok"],
                        "what": "IpAddr / Prefix methods: the MIR body of the registered wrapper equals the uninterpreted function of the std / inetnum "
                                "operation it documents, applied to its parameters in order (uninterpreted sorts for the operands); a mismatch is confirmed "
                                "on concrete probes against the real JIT before it is reported"},
    }
    res.cov["evaluations"] = res.cov.get("evaluations", 0) + len(decided) + sum(1 for r in drows if r["status"] == "ok") + sum(1 for r in srows if r["status"] == "ok")
    return rows
