"""Engine T glue: run the translation-validation corpus for one property and fold the results into a common.Result."""
import os, sys, json, time, re
from common import *
sys.path.insert(0, os.path.join(VERIF, "tv"))

_built = {}


def build():
    if _built.get("done"):
        return
    import shutil
    EXTRACT_DIR = crate_dir("extract")
    shutil.copy(os.path.join(REPO, "Cargo.lock"), os.path.join(EXTRACT_DIR, "Cargo.lock"))
    t0 = time.time()
    rc, out, _ = run(["cargo", "build", "--offline", "--target-dir", os.path.join(BUILD, "extract")], cwd=EXTRACT_DIR)
    if rc != 0:
        log(out[-5000:])
        log("extractor build failed")
        raise SystemExit(2)
    _built["done"] = True
    _built["secs"] = round(time.time() - t0, 1)


def run_tv(res, families, modes, known_roles=(), note="", reject_is_violation=False):
    """families: set of family names (or None = all); modes: which comparisons this property decides."""
    build()
    import gen, tvrun, tv, lang
    progs = gen.corpus(res.seed, res.tier)
    if families is not None:
        progs = [p for p in progs if p.meta["family"] in families]
    progs = [p for p in progs if p.meta["modes"] & modes]
    k_loop = 3 if res.tier == "quick" else 4
    t0 = time.time()
    results, t_dump = tvrun.run(progs, modes, res.tier, jobs=NCPU, k_loop=k_loop, depth=4,
                                timeout_ms=10000 if res.tier == "quick" else 120000)
    by = {p.meta["name"]: p for p in progs}
    n_ok = n_unsup = n_inc = n_cerr = 0
    known_hits = []
    unsupported, findings_new, samples = [], 0, []
    for r in results:
        if r["status"] == "ok":
            n_ok += 1
        elif r["status"] == "unsupported":
            n_unsup += 1
            unsupported.append({"program": r["name"], "why": r["reason"][:160]})
        elif r["status"] == "compile_error":
            n_cerr += 1
            script = os.path.join(tvrun.WORK, "src", r["name"] + ".roto")
            if reject_is_violation or ("panic" in r["reason"][:40] or "crash" in r["reason"][:40]):
                # every program of these families is a documented spelling / a chain the documented table accepts
                res.violation(f"{r['name']}: a corpus program - well-typed by construction, documented spellings only, accepted on the pinned tree - is rejected (or crashes the compiler): {r['reason'][:160]}",
                              {"engine": "tv-compile", "program": r["name"], "source": open(script).read(), "report": r["reason"]})
            else:
                res.inconclusive.append(f"{r['name']}: generated program rejected by the compiler: {r['reason'][:200]}")
        else:
            n_inc += 1
            res.inconclusive.append(f"{r['name']}: {r['reason'][:200]}")
        seen_roles = set()
        for f in r["findings"]:
            role = classify(f, by[r["name"]], r["name"])
            script = os.path.join(tvrun.WORK, "src", r["name"] + ".roto")
            if role in known_roles and f["confirmed"]:
                if role not in seen_roles:
                    seen_roles.add(role)
                    known_hits.append((role, r["name"], f["detail"]))
                continue
            if f["confirmed"]:
                findings_new += 1
                res.violation(f"{r['name']}: {f['kind']}: {f['detail'][:200]} with arguments {[hex(a) for a in f['args']]}",
                              {"engine": "tv", "program": r["name"], "source": open(script).read(), "kind": f["kind"],
                               "detail": f["detail"], "args": f["args"], "signature": tv.sig_of([x for x in by[r['name']].fns if x.name == 'main'][0]),
                               "replay": f["replay"]})
            else:
                res.inconclusive.append(f"{r['name']}: solver reports a {f['kind']} difference for arguments {f['args']} but the replay against "
                                        f"the real JIT does not show it ({str(f['replay'])[:200]}): encoder/reference problem, not reported")
    # one KNOWN-FINDING line per role
    roles = {}
    for role, name, detail in known_hits:
        roles.setdefault(role, []).append(name)
    for role, names in roles.items():
        text = next((k["text"] for k in known_findings() if k.get("role") == role), role)
        res.known_finding(f"{text} [{len(names)} corpus programs, e.g. {names[0]}]")
    v_runs = sum(r.get("validation", {}).get("runs", 0) for r in results)
    v_skip = sum(r.get("validation", {}).get("skipped", 0) for r in results)
    v_bad = [(r["name"], b) for r in results for b in r.get("validation", {}).get("bad", [])]
    for name, b in v_bad[:5]:
        res.inconclusive.append(f"translator validation: {name}: the solver found no difference, yet the real JIT and the reference differ at the concrete "
                                f"arguments {b['args']} ({b['kind']}): the encoding misrepresents the code - not decided. {b['details'][:300]}")
    if n_unsup:
        # on the pinned tree the encoder supports every corpus program; a program it cannot encode on another tree
        # (an instruction or shape the compiler did not emit before) is not decided, and the check must say so
        res.inconclusive.append(f"{n_unsup} of {len(results)} programs not encodable (e.g. {unsupported[0]['program']}: {unsupported[0]['why'][:200]})")
    for r in results[:3] + [r for r in results if r["clif_paths"] > 3][:3]:
        samples.append({"program": r["name"], "source": open(os.path.join(tvrun.WORK, "src", r["name"] + ".roto")).read()[:600],
                        "clif_paths": r["clif_paths"], "reference_paths": r["ref_paths"], "pairs_compared": r["pairs"], "queries": r["queries"]})
    t = res.cov.setdefault("tv", {})
    t.update({
        "programs": len(results), "ok": n_ok, "unsupported": n_unsup, "inconclusive": n_inc, "compile_errors": n_cerr,
        "families": sorted({p.meta["family"] for p in progs}), "modes": sorted(modes),
        "clif_paths": sum(r["clif_paths"] for r in results), "reference_paths": sum(r["ref_paths"] for r in results),
        "path_pairs_compared": sum(r["pairs"] for r in results), "solver_queries": sum(r["queries"] for r in results),
        "trap_sites_examined": sum(r["trap_sites"] for r in results),
        "solver_s": round(sum(r["solver_s"] for r in results), 1), "compile_and_dump_s": round(t_dump, 1),
        "extractor_build_s": _built.get("secs"), "wall_s": round(time.time() - t0, 1),
        "translator_validation": {"concrete_runs_real_jit_vs_reference": v_runs, "skipped_undefined_or_trapping": v_skip, "mismatches": len(v_bad)},
        "unsupported_list": unsupported[:30], "bounds": {"loop_iterations_per_loop": k_loop, "inlining_depth": 4, "solver_timeout_ms_per_query": 10000 if res.tier == "quick" else 120000},
        "functions_encoded": "every item the compiler emitted for each program (pkg.main, helpers, ::generated::clone/drop/eq_N), from the CLIF captured by hook H2",
        "note": note,
    })
    res.cov["programs"] = res.cov.get("programs", 0) + len(results)
    res.cov["disagreements_checked"] = res.cov.get("disagreements_checked", 0) + sum(r["queries"] for r in results)
    res.cov.setdefault("samples", [])
    res.cov["samples"] += samples
    return results


def classify(f, prog, name):
    """role of a finding, for matching against known-findings.json"""
    if f["kind"] == "trap":
        import tvrun
        st = tvrun.concrete_reference(prog, f["args"])
        if st[0] == "undefined":
            return "integer-division-undefined-operands-trap"
        return "trap-on-defined-input"
    entry = [x for x in prog.fns if x.name == prog.entry][0]
    if f["kind"] in ("value", "trace") and any(t == "Zst" for _, t in entry.params[:-1]):
        # a zero-sized registered type in front of another parameter of the entry function
        return "zero-sized-registered-argument-shifts-later-arguments"
    if f["kind"] == "ledger" and "still live at return" in f.get("detail", "") and name.startswith("f6_match_guard_returns"):
        # the bindings of a match arm when the guard of that arm leaves the function
        return "match-binding-leaks-when-guard-returns"
    if f["kind"] == "ledger" and "still live at return" in f.get("detail", "") and name.startswith("f6_later_arg_returns"):
        # an already evaluated call argument when a later argument of the same call leaves the function
        return "call-argument-leaks-when-later-argument-returns"
    return f["kind"]


TRUST_T = ["cranelift's CLIF -> machine code pipeline (exercised concretely by every replay)", "z3 (python bindings 5.1)",
           "/verif/tv/clif.py opcode table and memory model (validated per run: every reported model is replayed against the real JIT, and every program the solver found nothing on is run for real on 2 concrete argument vectors - boundary values and a seeded mix - and compared with the reference: a difference there means the encoding is wrong and the check exits 2)",
           "/verif/tv/lang.py reference semantics written from docs/source/reference/language_reference.md"]
