"""Engine K: run Kani proof harnesses from /verif/kani over the real /repo code."""
import json, os, re, shutil, time
from concurrent.futures import ThreadPoolExecutor
from common import *

KDIR = crate_dir("kani")
KTARGET = os.path.join(BUILD, "kani")
NTARGET = os.path.join(BUILD, "native")
_built = {}


def build(native=True):
    """(Re)build the harness crate against /repo's current working tree."""
    if _built.get("done"):
        return
    shutil.copy(os.path.join(REPO, "Cargo.lock"), os.path.join(KDIR, "Cargo.lock"))
    t0 = time.time()
    if native:
        for prof in ([], ["--release"]):
            rc, out, _ = run(["cargo", "build", "--offline", "--target-dir", NTARGET] + prof, cwd=KDIR)
            if rc != 0:
                log(out[-4000:])
                raise SystemExit(2)
    # build roto (the dependency) once by running the cheapest harness; every later `--harness X` invocation only
    # code-generates X (an unfiltered --only-codegen would link all harnesses: minutes)
    rc, out, _ = run(["cargo", "kani", "-Z", "stubbing", "--target-dir", KTARGET, "--harness",
                      "k_build_probe", "--exact"], cwd=KDIR)
    if rc != 0 or "VERIFICATION:- SUCCESSFUL" not in out:
        log(out[-6000:])
        log("kani build failed")
        raise SystemExit(2)
    _built["done"] = True
    _built["secs"] = time.time() - t0


def all_harnesses():
    """qualified names of every harness registered in a `crate::list![..]` block of the harness crate"""
    out = []
    src_dir = os.path.join(KDIR, "src")
    for f in sorted(os.listdir(src_dir)):
        if f.endswith(".rs"):
            src = open(os.path.join(src_dir, f)).read()
            m = re.search(r"crate::list!\[(.*?)\];", src, re.S)
            if m:
                out += [f"{f[:-3]}::{n.strip()}" for n in m.group(1).split(",") if n.strip()]
    return out


def parse_playback(out):
    """Concrete values of Kani's printed playback tests (one test per failed check) -> list of lists of byte lists."""
    tests = []
    for m in re.finditer(r"(?:/// Check for `(\w+)`[^\n]*\n(?:[^\n]*\n){0,6}?\s*)?let concrete_vals: Vec<Vec<u8>> = vec!\[(.*?)\n\s*\];", out, re.S):
        if m.group(1) == "cover":
            continue        # witnesses of satisfied cover! statements, not counterexamples
        vals = []
        for line in m.group(2).split("\n"):
            line = line.strip()
            mm = re.match(r"vec!\[(.*)\],?$", line)
            if mm:
                body = mm.group(1).strip()
                vals.append([int(x) for x in body.split(",") if x.strip() != ""])
        if vals not in tests:
            tests.append(vals)
    return tests or None


# failed checks that are *expected* loud stops of the code under test in "must stop" harnesses
ALLOWED = {
    "c20_memory::c20_memory_rejects": [r"memory access out of bounds", r"memory access is unaligned", r"attempt to add with overflow"],
    "c20_memory::c20_memory_dangling_frame": [r"assertion failed: frame\.id == p\.stack_id", r"assertion `left == right` failed", r"index out of bounds", r"assert_eq!/assert_ne! failed"],
}


def run_harness(qname, timeout, mem_gb=16):
    cmd = ["cargo", "kani", "-Z", "stubbing", "-Z", "concrete-playback", "--concrete-playback=print",
           "--target-dir", KTARGET, "--harness", qname, "--exact"]
    rc, out, secs = run(cmd, cwd=KDIR, timeout=timeout, mem_gb=mem_gb)
    os.makedirs(os.path.join(BUILD, "klogs"), exist_ok=True)
    open(os.path.join(BUILD, "klogs", qname.replace("::", "__") + ".log"), "w").write(out)
    r = {"harness": qname, "rc": rc, "wall_s": round(secs, 1)}
    m = re.search(r"Verification Time: ([0-9.]+)s", out)
    r["cbmc_s"] = float(m.group(1)) if m else None
    m = re.search(r"\*\* (\d+) of (\d+) failed", out)
    r["checks"] = int(m.group(2)) if m else 0
    r["failed_checks"] = int(m.group(1)) if m else None
    m = re.search(r"\*\* (\d+) of (\d+) cover properties satisfied", out)
    r["covers"] = (int(m.group(1)), int(m.group(2))) if m else (0, 0)
    r["stubs"] = re.findall(r"- Stub: (.*)", out)
    failed = re.findall(r"Failed Checks: (.*)", out)
    if qname in ALLOWED:
        r["expected_stops"] = [f for f in failed if any(re.search(a, f) for a in ALLOWED[qname])]
        failed = [f for f in failed if f not in r["expected_stops"]]
        if not failed and "VERIFICATION:- FAILED" in out and r["expected_stops"]:
            out = out.replace("VERIFICATION:- FAILED", "VERIFICATION:- SUCCESSFUL (only expected loud stops failed)")
    r["failed"] = failed
    if rc == -999:
        r["status"] = "timeout"
    elif "VERIFICATION:- SUCCESSFUL" in out:
        if r["covers"][0] != r["covers"][1]:
            r["status"] = "vacuous"
        else:
            r["status"] = "ok"
    elif "VERIFICATION:- FAILED" in out:
        if any("unwinding assertion" in f for f in failed):
            r["status"] = "unwind"
        elif "Status: ERROR" in out or not failed:
            r["status"] = "error"
        else:
            r["status"] = "failed"
            r["playback"] = parse_playback(out)
    else:
        r["status"] = "error"
    if r["status"] in ("error", "unwind", "timeout", "vacuous"):
        r["tail"] = out[-1500:]
        r["oom"] = "out of memory" in out
    return r


def replay(qname, vals, miri=False):
    """Re-run the harness body natively with the solver's values. Returns dict per profile."""
    name = qname.split("::")[-1]
    arg = json.dumps(vals)
    res = {}
    for prof in ("debug", "release"):
        exe = os.path.join(NTARGET, prof, "replay")
        rc, out, _ = run([exe, name, arg], timeout=120)
        res[prof] = {"rc": rc, "tail": out[-600:]}
    if miri:
        e = env_base()
        e["MIRIFLAGS"] = "-Zmiri-disable-isolation"
        rc, out, _ = run(["cargo", "+nightly", "miri", "run", "--offline", "--target-dir", os.path.join(BUILD, "miri"),
                          "--bin", "replay", "--", name, arg], cwd=KDIR, env=e, timeout=900)
        res["miri"] = {"rc": rc, "tail": out[-1200:]}
    return res


def reproduced(rep):
    """A counterexample reproduces if a native profile panics/aborts/crashes (not a replay mismatch),
    or Miri reports undefined behaviour."""
    for prof in ("debug", "release"):
        r = rep.get(prof)
        if r and r["rc"] not in (0, 3, 4) and "REPLAY-MISMATCH" not in r["tail"]:
            return prof
    m = rep.get("miri")
    if m and "Undefined Behavior" in m["tail"]:
        return "miri"
    return None


MEMORY_FAILURES = ("dereference failure", "deallocated", "dead object", "outside object bounds", "double free", "misaligned")


def mem_available_gb():
    try:
        for line in open("/proc/meminfo"):
            if line.startswith("MemAvailable:"):
                return int(line.split()[1]) / 1e6
    except OSError:
        pass
    return 64.0


def run_set(res, harnesses, timeout, mem_gb=16, jobs=None, known=(), hunt=()):
    """harnesses: list of qualified names. Fills res (common.Result). known: list of
    (harness-name-regex, failed-check-regex, text) describing findings listed in known-findings.json."""
    build()
    # harnesses: qualified names, or (name, timeout_s, mem_gb) triples for per-harness budgets
    items = [h if isinstance(h, tuple) else (h, timeout, mem_gb) for h in harnesses]
    harnesses = [h[0] for h in items]
    jobs = jobs or max(1, min(NCPU, len(items)))
    t0 = time.time()
    import threading
    gate = threading.Lock()

    big_lock = threading.Condition()
    big_state = {"reserved": 0.0}
    BIG, BIG_TOTAL = 16, 52      # harnesses with a budget above 16 GB reserve it; together they never reserve more than 52 GB

    def admitted(h):
        # memory-aware admission: CBMC processes grow for minutes; starting another one while little memory is left
        # makes several of them die of bad_alloc together (seen in the first thorough sweep). One harness starts at a
        # time, and only when the machine still has room for it. Harnesses with a large budget (> 16 GB) additionally
        # reserve it, so that e.g. a 48 GB and two 24 GB schedules do not run at the same time.
        big = h[2] > BIG
        if big:
            with big_lock:
                while big_state["reserved"] > 0 and big_state["reserved"] + h[2] > BIG_TOTAL:
                    big_lock.wait(timeout=30)
                big_state["reserved"] += h[2]
        try:
            with gate:
                waited = 0
                while mem_available_gb() < min(h[2], 12) and waited < 1800:
                    time.sleep(5)
                    waited += 5
            return run_harness(h[0], h[1], h[2])
        finally:
            if big:
                with big_lock:
                    big_state["reserved"] -= h[2]
                    big_lock.notify_all()

    with ThreadPoolExecutor(jobs) as ex:
        results = list(ex.map(admitted, items))
    # a harness that ran out of memory while others were running gets one more run on its own
    for i, r in enumerate(results):
        if r["status"] == "error" and r.get("oom") and items[i][0] not in hunt:
            log(f"retrying {r['harness']} alone (out of memory in the parallel batch)")
            results[i] = run_harness(*items[i])
    for r in results:
        st = r["status"]
        if st == "ok":
            continue
        if st == "failed":
            desc = "; ".join(r["failed"])[:300]
            hit = None
            for (hre, fre, text) in known:
                if re.search(hre, r["harness"]) and all(re.search(fre, f) for f in r["failed"]):
                    hit = text
            tests = r.get("playback") or []
            mem = any(any(k in f for k in MEMORY_FAILURES) for f in r["failed"])
            rep, how, vals = {}, None, None
            for vals in tests:
                rep = replay(r["harness"], vals, miri=mem)
                how = reproduced(rep)
                if how:
                    break
            r["replay"] = {k: v["rc"] for k, v in rep.items()}
            r["reproduced_in"] = how
            if hit:
                r["status"] = "known"
                res.known_finding(f"{hit} [harness {r['harness']}: {desc}]")
            elif how:
                res.violation(f"{r['harness']}: {desc} (reproduced natively: {how})",
                              {"engine": "kani", "harness": r["harness"], "failed_checks": r["failed"],
                               "concrete_vals": vals, "replay": rep,
                               "rerun": f"{NTARGET}/debug/replay {r['harness'].split('::')[-1]} '{json.dumps(vals)}'"})
            else:
                res.inconclusive.append(f"{r['harness']}: CBMC reports '{desc}' but the native replay did not reproduce it "
                                        f"({r['replay']}) - harness/stub/encoding problem, not reported as violation")
        elif r["harness"] in hunt and st in ("timeout", "error"):
            # refutation attempt only: the proof of this obligation needs more time/memory than this tier has; nothing is claimed
            r["status"] = "undecided (refutation attempt: no counterexample within the quick-tier budget; proof only in the thorough tier)"
        else:
            res.inconclusive.append(f"{r['harness']}: {st} after {r['wall_s']}s: {r.get('tail','')[-300:]}")
    res.cov.setdefault("kani", {})
    k = res.cov["kani"]
    k["harnesses"] = k.get("harnesses", []) + [
        {kk: r[kk] for kk in ("harness", "status", "cbmc_s", "wall_s", "checks", "covers", "stubs", "failed") if kk in r}
        for r in results]
    k["build_s"] = round(_built.get("secs", 0), 1)
    k["wall_s"] = round(k.get("wall_s", 0) + time.time() - t0, 1)
    return results
