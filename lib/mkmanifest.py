#!/opt/veriftools/pyvenv/bin/python
"""Regenerates MANIFEST.json from the tables below (keeps it valid and in sync with lib/props.py)."""
import json, os, sys
V = os.path.dirname(os.path.dirname(os.path.abspath(__file__)))

CLAIMS = {}
NA = {}

def claim(pid, category, text, note, technique, engine, design_ref):
    CLAIMS[pid] = dict(property_id=pid, quick_cmd=f"./check {pid} --tier quick", thorough_cmd=f"./check {pid} --tier thorough",
                       evidence_file=f"/verif/evidence/{pid}.json", replay_cmd_template=f"./check {pid} --replay {{path}}",
                       engine=engine, level_claimed=dict(category=category, text=text, design_ref=design_ref),
                       level_note=note, technique=technique)

exec(open(os.path.join(V, "lib", "manifest_data.py")).read())

m = {
    "version": 1,
    "setup_cmd": "./check setup",
    "hooks": {
        "guard": "--cfg nlnetlabs_roto_verif",
        "enable": "RUSTFLAGS='--cfg nlnetlabs_roto_verif' (set by lib/common.py for every cargo / cargo kani invocation)",
        "baseline_off_cmd": "cd /repo && cargo test --workspace --no-fail-fast --offline",
        "source_commits": HOOK_COMMITS,
        "add_only": False,   # H7 replaces `use std::sync::{Arc, Mutex}` in list.rs by a cfg-switched pair of imports (DESIGN 10.2); every other hook only adds
    },
    "engines": ENGINES,
    "checks": [CLAIMS[k] for k in sorted(CLAIMS)],
    "not_applicable": [dict(property_id=k, reason=NA[k]) for k in sorted(NA)],
    "notes": NOTES,
}
json.dump(m, open(os.path.join(V, "MANIFEST.json"), "w"), indent=1)
import jsonschema
jsonschema.validate(m, json.load(open("/root/.vp/MANIFEST.schema.json")))
ids = set(CLAIMS) | set(NA)
want = {f"C{i:02d}" for i in range(1, 21)}
assert ids == want, (want - ids, ids - want)
assert not (set(CLAIMS) & set(NA))
print("MANIFEST.json ok:", len(CLAIMS), "claimed,", len(NA), "not applicable")
