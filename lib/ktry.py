#!/opt/veriftools/pyvenv/bin/python
"""Developer tool: ktry.py [--timeout S] [--mem G] [--jobs N] <qualified harness names or regexes> - run and summarise."""
import sys, os, re, json, subprocess
sys.path.insert(0, os.path.dirname(os.path.abspath(__file__)))
from common import *
import kani_engine as K
from concurrent.futures import ThreadPoolExecutor
import argparse
ap = argparse.ArgumentParser()
ap.add_argument("--timeout", type=int, default=600)
ap.add_argument("--mem", type=float, default=16)
ap.add_argument("--jobs", type=int, default=12)
ap.add_argument("--replay", action="store_true")
ap.add_argument("names", nargs="+")
a = ap.parse_args()
K.build(native=a.replay)
# resolve names: list harnesses from source
allh = K.all_harnesses()
sel = [h for h in allh if any(re.search(n, h) for n in a.names)]
print(len(sel), "harnesses", file=sys.stderr)
with ThreadPoolExecutor(a.jobs) as ex:
    for r in ex.map(lambda h: K.run_harness(h, a.timeout, a.mem), sel):
        line = f"{r['harness']:60s} {r['status']:8s} cbmc={r['cbmc_s']} wall={r['wall_s']} covers={r['covers']} {r['failed'][:2]}"
        print(line, flush=True)
        if r["status"] not in ("ok",) and "tail" in r:
            print("    " + r["tail"][-400:].replace("\n", "\n    "))
        if a.replay and r["status"] == "failed" and r.get("playback") is not None:
            mem = any(any(k in f for k in K.MEMORY_FAILURES) for f in r["failed"])
            rep = {}
            for vals in r["playback"]:
                rep = K.replay(r["harness"], vals, miri=mem)
                if K.reproduced(rep):
                    break
            print("    replay:", {k: v["rc"] for k, v in rep.items()}, "reproduced:", K.reproduced(rep))
            for k, v in rep.items():
                print(f"    [{k}] " + v["tail"][-300:].replace("\n", "\n      "))
