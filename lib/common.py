"""Shared plumbing for /verif/check: paths, subprocess helpers, evidence, known findings."""
import json, os, subprocess, sys, time, resource, signal

VERIF = os.path.dirname(os.path.dirname(os.path.abspath(__file__)))
REPO = os.environ.get("VERIF_REPO", "/repo")
BUILD = os.path.join(VERIF, "build")
EVID = os.path.join(VERIF, "evidence")
REPLAYS = os.path.join(VERIF, "replays")
# Developer convenience (the registered commands never set it): VERIF_REPO=<scratch worktree> runs the same checks
# against another checkout, with every build product, evidence file and replay under build/alt/<tag>/ so that the
# committed evidence and the builds against /repo are left alone.
ALT = os.path.realpath(REPO) != "/repo"
if ALT:
    BUILD = os.path.join(VERIF, "build", "alt", os.path.realpath(REPO).strip("/").replace("/", "_"))
    EVID = os.path.join(BUILD, "evidence")
    REPLAYS = os.path.join(BUILD, "replays")
    os.makedirs(EVID, exist_ok=True)
    os.environ["VERIF_BUILD"] = BUILD


def crate_dir(name):
    """source directory of one of /verif's own crates (kani, extract) whose Cargo.toml depends on the tree under test"""
    src = os.path.join(VERIF, name)
    if not ALT:
        return src
    import shutil
    dst = os.path.join(BUILD, "crates", name)
    shutil.rmtree(dst, ignore_errors=True)
    shutil.copytree(src, dst, ignore=shutil.ignore_patterns("target", "Cargo.lock"))
    t = open(os.path.join(dst, "Cargo.toml")).read().replace('path = "/repo"', f'path = "{os.path.realpath(REPO)}"')
    open(os.path.join(dst, "Cargo.toml"), "w").write(t)
    return dst
CFG = "--cfg nlnetlabs_roto_verif"
NCPU = int(os.environ.get("VERIF_JOBS", "14"))


def env_base():
    e = dict(os.environ)
    e["CARGO_NET_OFFLINE"] = "true"
    e["RUSTFLAGS"] = CFG
    e.pop("RUSTUP_TOOLCHAIN", None)
    return e


def log(*a):
    print(*a, file=sys.stderr, flush=True)


def run(cmd, cwd=None, env=None, timeout=None, mem_gb=None, stdin=None):
    """Run a command; returns (rc, output, seconds). rc=-9 on timeout."""
    def limits():
        os.setsid()
        if mem_gb:
            b = int(mem_gb * 1024 ** 3)
            resource.setrlimit(resource.RLIMIT_AS, (b, b))
    t0 = time.time()
    p = subprocess.Popen(cmd, cwd=cwd, env=env or env_base(), stdout=subprocess.PIPE,
                         stderr=subprocess.STDOUT, stdin=subprocess.PIPE if stdin is not None else subprocess.DEVNULL,
                         preexec_fn=limits, text=True, errors="replace")
    try:
        out, _ = p.communicate(input=stdin, timeout=timeout)
        rc = p.returncode
    except subprocess.TimeoutExpired:
        try:
            os.killpg(p.pid, signal.SIGKILL)
        except ProcessLookupError:
            pass
        out, _ = p.communicate()
        rc = -999
    return rc, out, time.time() - t0


def known_findings():
    p = os.path.join(VERIF, "known-findings.json")
    if not os.path.exists(p):
        return []
    return json.load(open(p)).get("findings", [])


class Result:
    """Accumulates what one check run covered."""

    def __init__(self, pid, tier, seed):
        self.pid, self.tier, self.seed = pid, tier, seed
        self.t0 = time.time()
        self.violations = []      # dicts {what, replay}
        self.known = []           # strings
        self.inconclusive = []    # strings
        self.cov = {}
        self.assumptions = []
        self.level = "model_checking"

    def violation(self, what, replay_obj):
        os.makedirs(os.path.join(REPLAYS, self.pid), exist_ok=True)
        n = len(self.violations)
        path = os.path.join(REPLAYS, self.pid, f"{n}.json")
        json.dump(replay_obj, open(path, "w"), indent=1)
        self.violations.append({"what": what, "replay": path})
        print(f"VIOLATION property={self.pid} replay={path}", flush=True)
        log(f"  violation: {what}")

    def known_finding(self, what):
        self.known.append(what)
        print(f"KNOWN-FINDING: property={self.pid} {what}", flush=True)

    def finish(self):
        os.makedirs(EVID, exist_ok=True)
        ev = {
            "property_id": self.pid, "tier": self.tier, "seed": self.seed,
            "level": self.level, "coverage": self.cov,
            "assumptions": self.assumptions,
            "wall_s": round(time.time() - self.t0, 2),
            "violations": len(self.violations),
        }
        ev["coverage"]["known_findings_reported"] = self.known
        ev["coverage"]["inconclusive"] = self.inconclusive
        ev["coverage"]["violation_details"] = self.violations
        json.dump(ev, open(os.path.join(EVID, f"{self.pid}.json"), "w"), indent=1)
        if self.violations:
            return 1
        if self.inconclusive:
            for i in self.inconclusive:
                log(f"INCONCLUSIVE: {i}")
            return 2
        return 0
