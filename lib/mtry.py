#!/opt/veriftools/pyvenv/bin/python
"""developer helper: engine M (check_program_cf) over chosen corpus families / name prefixes, using an existing MIR dump.
usage: lib/mtry.py <family,family|-> [name-prefix ...]      (env VERIF_MIR=path of a MIR dump, default build/mir/roto.mir)"""
import sys, os, json, shutil, time, multiprocessing as mp
from collections import Counter
sys.path.insert(0, os.path.dirname(os.path.abspath(__file__)))
from common import *
sys.path.insert(0, os.path.join(VERIF, "tv"))
import tv_engine

_MIR = None
_PROGS = {}
W = os.path.join(BUILD, "scratch_m")


def _init(path):
    global _MIR
    import mir as M
    _MIR = M.Mir(open(path).read(), REPO)


def _one(name):
    import c20
    d = json.load(open(os.path.join(W, "dump", name + ".json")))
    t0 = time.time()
    try:
        o = c20.check_program_cf(_MIR, _PROGS[name], d)
    except Exception:
        import traceback
        o = {"status": "unsupported", "reason": "internal: " + traceback.format_exc()[-700:], "queries": 0, "finding": None, "profiles": {}}
    o["name"], o["secs"] = name, round(time.time() - t0, 2)
    return o


if __name__ == "__main__":
    tv_engine.build()
    import gen, lang, tv
    fams = None if sys.argv[1] == "-" else set(sys.argv[1].split(","))
    pref = tuple(sys.argv[2:])
    progs = [p for p in gen.corpus(int(os.environ.get("VERIF_SEED", "1")), os.environ.get("VERIF_TIER", "quick"))
             if (fams is None or p.meta["family"] in fams) and (not pref or p.meta["name"].startswith(pref))]
    shutil.rmtree(W, ignore_errors=True)
    os.makedirs(W + "/src"); os.makedirs(W + "/dump")
    paths = []
    for p in progs:
        _PROGS[p.meta["name"]] = p
        f = f"{W}/src/{p.meta['name']}.roto"
        open(f, "w").write(lang.program_src(p)); paths.append(f)
    tv.dump_programs(paths, W + "/dump")
    mirp = os.environ.get("VERIF_MIR", os.path.join(BUILD, "mir", "roto.mir"))
    with mp.Pool(NCPU, initializer=_init, initargs=(mirp,)) as pool:
        res = pool.map(_one, [p.meta["name"] for p in progs], chunksize=4)
    cnt = Counter()
    reasons = Counter()
    for r in res:
        cnt[r["status"] + ("+finding" if r["finding"] else "")] += 1
        if r["status"] != "ok":
            reasons[r["reason"][:110]] += 1
        if r["finding"]:
            print("FINDING", r["name"], r["finding"])
    for k, v in reasons.most_common(40):
        print(v, k)
    print(cnt, "queries", sum(r["queries"] for r in res), "max secs", max(r["secs"] for r in res))
    if os.environ.get("VERBOSE"):
        for r in res:
            print(r["name"], r["status"], r["reason"][:300], r["profiles"])
