#!/opt/veriftools/pyvenv/bin/python
"""developer helper: engine T on the corpus programs whose name starts with the given prefixes: ttry.py value,trace,ledger <prefix>...
(VERIF_REPO=<worktree> to point at another checkout)"""
import sys, os, json
sys.path.insert(0, os.path.dirname(os.path.abspath(__file__)))
from common import *
sys.path.insert(0, os.path.join(VERIF, "tv"))
import tv_engine
tv_engine.build()
import gen, tvrun
modes = set(sys.argv[1].split(","))
pref = tuple(sys.argv[2:])
tier = os.environ.get("VERIF_TIER", "quick")
progs = [p for p in gen.corpus(int(os.environ.get("VERIF_SEED", "1")), tier) if p.meta["name"].startswith(pref)]
print(len(progs), "programs")
results, _ = tvrun.run(progs, modes, tier, jobs=NCPU)
from collections import Counter
print(Counter(r["status"] for r in results))
for r in results:
    if r["status"] != "ok":
        print(r["name"], r["status"], r["reason"][:300])
    for f in r["findings"]:
        print("FINDING", r["name"], f["kind"], f["detail"][:160], [hex(a) for a in f["args"]], "confirmed" if f["confirmed"] else "NOT confirmed")
