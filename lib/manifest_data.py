HOOK_COMMITS = ["1f23ce1", "19a6366", "2f68a08", "696cad2", "6d64dfa", "02a7a17", "ec44b21", "4f0f0e1", "611fd41", "a6d55ff", "71ec365", "16c9f99", "959e5de", "8e5f164", "cae6fbb"]
NOTES = ("Solver-based checking of the real code: Kani/CBMC harnesses over roto's Rust (engine K), translation validation of the "
         "emitted cranelift IR with symbolic arguments in z3 (engine T), symbolic interpretation of MIR slices of the LIR evaluator "
         "(engine M). See DESIGN.md, section 10 for the as-built record. Exit 2 = inconclusive (timeout, OOM, vacuous harness, "
         "non-reproducing counterexample, unsupported encoding) and is never reported as 'held'. Genuine defects found on the pinned "
         "tree were repaired with 'fix:' commits in /repo (ten, listed in known-findings.json under 'fixed'); five are recorded as known findings (C10 x2, C17, C05, C03).")
ENGINES = [
    {"name": "K", "path": "/verif/kani", "serves_properties": ["C02", "C05", "C06", "C09", "C10", "C15", "C16", "C17", "C20"],
     "kind_free_text": "Kani 0.68 / CBMC 6.11 proof harnesses (external crate, path dependency on /repo, cfg nlnetlabs_roto_verif), "
                       "one process per harness, native replay twin (dev + release) and Miri for counterexamples"},
    {"name": "T", "path": "/verif/tv", "serves_properties": ["C01", "C02", "C03", "C05", "C08", "C09", "C10"],
     "kind_free_text": "translation validation: the real compiler's emitted cranelift IR (captured by hook H2 through /verif/extract) is executed "
                       "symbolically path by path in z3 with symbolic arguments and compared with a reference semantics of the source; "
                       "every model is replayed against the real JIT"},
    {"name": "B", "path": "/verif/tv/builtins_b.py", "serves_properties": ["C17"],
     "kind_free_text": "MIR bodies of the default runtime's float built-ins (found through their registration in the MIR dump) executed over z3 "
                       "floating-point terms and compared with the documented IEEE-754 operation; IpAddr/Prefix and String methods (tv/strdeleg.py) decided to be "
                       "the documented std operation applied to their parameters in order (uninterpreted functions); models replayed on the real JIT"},
    {"name": "M", "path": "/verif/tv/mir.py", "serves_properties": ["C20"],
     "kind_free_text": "symbolic interpretation of the nightly MIR dump of lir::eval::eval's instruction arms (scalar and memory instructions; Jump/Switch/Call/Return "
                       "modelled and guarded by a callee fingerprint of their arms), compared in z3 with engine T's encoding of the CLIF emitted for the same LIR"},
]

TV = "translation_validation"
MC = "model_checking"

claim("C01", TV,
      "For every program of a generated corpus (operator x type cells, literal spellings, random nested expressions, loops, early return, "
      "recursion, Option/match/?, operator chains) z3 decides, for ALL argument values, that the value returned by the cranelift IR the real "
      "compiler emitted equals the reference semantics of the source, on every jointly feasible path pair within the loop bound.",
      "Programs are generated (enumerated cells + seeded random), inputs/paths are decided by the solver. Trusts cranelift's back end, z3, my CLIF "
      "opcode table and the reference semantics; every reported difference is replayed on the real JIT. Loop bound 3/4, inlining depth 4.",
      "translation validation of emitted CLIF against a reference semantics in z3 (path-wise symbolic execution, symbolic arguments)", "T", "DESIGN.md 5/C01, 10.4")
claim("C02", MC,
      "Kani/CBMC: the layout arithmetic behind every field and payload offset, for all sizes <= 2^16 and alignments <= 16 (inductive step, union, "
      "concat, offset_by). Engine T: records/enums with symbolic field contents - construct, copy, mutate one copy, compare, match; strings are "
      "values; list copies share pushes (also from inside a for loop): result equals the reference for all arguments.",
      "Generic and anonymous records and lists of aggregates are outside; see DESIGN.md 10.6.",
      "Kani/CBMC bounded model checking of runtime/layout.rs + z3 translation validation of record/enum programs", "K+T", "DESIGN.md 5/C02")
claim("C03", TV,
      "For every program of families F6/F6R/F11/F13 (drop-tracked host values, strings, f-strings and lists at enumerated and random control-flow "
      "positions) and every feasible path of the emitted CLIF "
      "(feasibility decided by z3): the ownership ledger balances - no double drop, no use after drop, no operation on a never-initialised slot, "
      "nothing live at return except what is returned.",
      "Ledger keyed by the unique id in each instance's bytes; host functions own their by-value arguments. Tracked host values, strings "
      "(incl. f-strings) and lists (incl. for loops) are modelled; script/registered constants and panicking host functions are not.",
      "path-wise symbolic execution of emitted CLIF with an ownership ledger; path feasibility by z3", "T", "DESIGN.md 5/C03")
claim("C05", MC,
      "Kani/CBMC, one harness per instantiation (32, plus a List<Option<bool>> built through the Rust API): for all payload values the repr(u8) mirror of Option/Result/Verdict has tag and payload where "
      "roto's enum layout rule puts them, in both directions, and untransform(transform(v)) == v. Engine T: identity functions, pass-through to host "
      "functions, Option/Verdict built in the script and read by Rust and vice versa, Option/Result built by registered Rust functions and taken apart "
      "by the script, `()` parameters of registered functions, registered constants, strings handed to host functions, clones of Result/Verdict values that "
      "hold a string, a zero-sized registered argument in front of a scalar (entry call bound by machine argument position), for all values.",
      "Registered constants are read through the bytes hook H2 captures. The machine calling convention is modelled only as 'argument k goes to parameter k' "
      "for the zero-sized-argument cells (otherwise only exercised by replays); List contents and context fields are outside. On the pinned tree a zero-sized "
      "registered argument shifts every later argument: recorded known finding (known-findings.json).",
      "Kani/CBMC bounded model checking of the mirror enums + z3 translation validation of boundary identity programs", "K+T", "DESIGN.md 5/C05")
claim("C06", MC,
      "Kani/CBMC: every token recogniser, skip-and-error path of the lexer on EVERY UTF-8 string of at most 3 bytes (thorough: 4, ASCII 5): no "
      "panic, token spans start at the cursor, are non-empty, inside the input and on character boundaries; f-string parts; the error-token span; skip_shebang; the parser's token layer (Parser::next / "
      "run_parser): every location it cites lies inside the file on character boundaries.",
      "Lexer, span layer and the parser's token layer only - the parser above it (e.g. literal-suffix error locations), type checker, lowering, module "
      "loading are outside (no bound small enough for CBMC contains a declaration). Stubs: record_almost_keyword -> no-op; next_token -> 'skip any prefix "
      "and decline' (err_span) / 'skip known whitespace and decline' (parser_next, replayable).",
      "Kani/CBMC bounded model checking of src/parser/lexer.rs recognisers over all short UTF-8 inputs", "K", "DESIGN.md 5/C06")
claim("C08", TV,
      "For every program of F7/F7R/F6/F6R/F11/F12E/F13 (effectful host calls at every operand, argument, field, list element, f-string part, guard, "
      "condition and statement position) and every "
      "jointly feasible path pair: the sequence of host calls and their argument values in the emitted CLIF equals the reference trace, for all inputs.",
      "Includes registered methods (receiver first), string + / += operands and filtermaps (nothing after accept / reject runs, also from inside loops and match arms); loop bound 3/4.",
      "translation validation of the host-call trace of emitted CLIF against a reference semantics in z3", "T", "DESIGN.md 5/C08")
claim("C09", MC,
      "Kani/CBMC: number / hex / AS-number / quoted-literal / identifier recognisers vs reference scanners written from the documented grammar on every "
      "ASCII string <= 4 bytes (identifiers: UTF-8 <= 3), and relative_associativity on all 13x13 operator pairs. Engine T: literal spellings and "
      "unparenthesised operator chains evaluate to what the documented grammar and precedence table dictate, for all arguments.",
      "Escape decoding (rustc_literal_escaper), IP/prefix literal parsing (std::net), shebang/comments beyond skip_whitespace are outside.",
      "Kani/CBMC differential checking of lexer recognisers against reference scanners + z3 translation validation of literal/precedence programs", "K+T", "DESIGN.md 5/C09")
claim("C10", TV,
      "Engine T: for every sdiv/udiv/srem/urem reached in the F1/F9 corpus z3 is asked for arguments that reach it with trapping operands; every model "
      "is replayed in a child process (signal observed). Guarded divisions are proved trap-free. Kani: Prefix::new_relaxed (unwrapped by Prefix.new).",
      "On the pinned tree unguarded division traps: recorded as a known finding keyed by 'the language leaves these operands undefined'; a trap on a "
      "defined input is still a violation. Built-in glue closures and float built-ins are outside.",
      "z3 reachability queries for trapping operands on emitted CLIF + Kani on argument-validating kernels", "T+K", "DESIGN.md 5/C10")
claim("C15", MC,
      "Kani/CBMC: the real List<T> against an array model, one harness per (pre-state, operation-kind sequence): element values and lookup indices "
      "symbolic, CBMC pointer checks on every access, two aliased handles; capacity arithmetic for all sizes; == terminates and answers element-wise; "
      "script-side contains/index on an empty list of drop-tracked elements release the item they were given exactly once.",
      "Operation kinds enumerated (stated bound), u64/u8 elements, sequences of <= 2 (thorough 3) operations from a 0- or 2-element state. Stubs: "
      "Mutex::lock -> try_lock/DEADLOCK, swap_nonoverlapping -> byte loop. contains/index/concat/to_vec/join, growth, zero-sized and tracked elements "
      "and script-side bindings are outside (over budget).",
      "Kani/CBMC bounded model checking of src/value/list.rs against an array model", "K", "DESIGN.md 5/C15, 10.3")
claim("C16", MC,
      "Kani/CBMC with the schedule as symbolic input: at the schedule points of the running operation (before each lock acquisition, hook H3; after each lock "
      "release, hook H7) a kani::any() bit decides whether the other thread's whole operation runs there; deallocated-object checks and linearisability vs the "
      "model. Quick: get / len vs push without reallocation at every point; get on a full list (len == capacity, built directly) vs one push that relocates the "
      "storage, before the lock and after the release. Thorough adds the 4-push relocation schedule from a 1-element list.",
      "Sequentialisation: preempting operations run atomically, depth 1, one preempting thread, one storage, u64 elements. Schedules of to_vec, ==, concat, "
      "contains/index, ffi::list_get and push vs push exceed the CBMC budget (20-48 GB) and are not claimed.",
      "Kani/CBMC bounded model checking with sequentialised schedules (symbolic preemption points)", "K", "DESIGN.md 5/C16, 10.3")
claim("C17", MC,
      "Kani/CBMC: byte view {len, get, slice} on every UTF-8 string <= 2 bytes (thorough 3) and line view {slice, get} on every ASCII string, all indices in "
      "{0..len+1} u {usize::MAX}, against explicit byte-loop references; no panic. Engine B: the MIR bodies of the registered f32/f64 built-ins floor, ceil, round, "
      "abs, sqrt, is_nan, is_infinite, is_finite (pow: argument order only) executed over z3 floating-point terms and decided equal to the IEEE-754 operation the "
      "documentation names, for every bit pattern; counterexamples replayed on the real JIT. Delegations: for 9 IpAddr/Prefix methods and 12 String methods "
      "(contains, starts_with, ends_with, to_lowercase, to_uppercase, repeat, replace, trim, trim_start, trim_end, strip_prefix, strip_suffix) z3 decides that the "
      "body registered under the script-visible name (MIR: basic.rs wrapper -> RotoString::m) is the documented std operation applied to the parameters in order.",
      "The byte- and line-indexed string views, the float built-ins and which std operation the one-line String methods run on which arguments (not what std computes); the char view (std iterator adaptors exceed 24 GB in CBMC "
      "even for 2 ASCII bytes), StringBuf (Arc<str> construction under a mutex: out of memory at 24 GB with one symbolic character), to_string are outside; "
      "IpAddr/Prefix methods are decided as delegations only. StringLines::get is a recorded known finding.",
      "Kani/CBMC differential checking of string views against byte-loop references; z3 floating-point theory over the MIR bodies of the float built-ins", "K+B", "DESIGN.md 5/C17, 10.5b")
claim("C20", TV,
      "Engine M: for every program of the corpus that lowers to scalar, control-flow, script-function-call and memory instructions (scalars, records, enums, "
      "Option/?, generated equality functions; straight-line, branching and looping), the LIR the real lowering produced is run path-wise through the MIR of the "
      "evaluator's instruction arms (symbolic payloads; Offset/Write/Read/Copy through the MIR of IrValue::as_vec/from_slice and IrType::bytes over a model of "
      "eval::Memory) and z3 decides that, wherever the evaluator does not stop loudly, its value equals the emitted CLIF's value on every jointly feasible path "
      "pair, in both overflow-check profiles; trapping inputs of the compiled code must be loud stops. Unit obligation from the same MIR dump: "
      "<IrValue as PartialEq>::eq on every pair of variants either stops loudly or answers the equality of the bit patterns. Kani: the evaluator's checked "
      "memory (bounds, alignment, offsets accumulate, popped frames) - what the memory model of engine M rests on.",
      "Instruction arms from MIR: Assign/Add/Sub/Mul/Div/Mod/FDiv/IntCmp/FloatCmp/Not/Negate/Offset/Write/Read/Copy; Switch through the MIR of switch_on (the "
      "branch-table lookup modelled); Jump/Call/Return and eval's prologue modelled after eval.rs and cross-checked on every run against the real evaluator "
      "on concrete arguments. CallRuntime, Clone/Drop/Eq/InitString/Initialize/ConstantAddress (strings, lists, host calls) and therefore "
      "host-call-sequence equality are outside.",
      "symbolic interpretation of rustc MIR slices of lir::eval::eval compared in z3 with the CLIF encoding; Kani on eval::Memory", "M+K", "DESIGN.md 5/C20, 10.5")

NA["C04"] = "signature gate compares a compile-time Rust type with a Roto type through TypeId-keyed hash maps; no value-level kernel CBMC can execute (probe: 30 min without leaving symex); only enumeration of instantiations would remain"
NA["C07"] = "acceptance is the control flow of the 5 kLOC inference engine over BTreeMap scope graphs/hash maps/global interner, beyond CBMC (2-insert BTreeMap = 15 GB); compiling ill-typed mutants would be testing, not solving"
NA["C11"] = "state is mmap'ed JIT memory, Arc counts and drop order across FFI; histories of API calls, nothing value-level to make symbolic; CBMC cannot model the JIT"
NA["C12"] = "Kani/CBMC have no threads; racy state only reachable by executing JIT-compiled machine code; Send/Sync half is a type-system fact"
NA["C13"] = "name resolution lives in ScopeGraph (BTreeMap), import fix-point and file discovery inside the type checker: out of CBMC's reach and without symbolic inputs"
NA["C14"] = "ordering kernel is tarjan over BTreeMap<V,BTreeSet<V>> (3-node graphs did not finish in 30 min); property quantifies over dependency graphs only"
NA["C18"] = "Rt::add drives the scope graph and interner over closures/TypeIds; its only value-level kernel (name lexing) is covered under C06/C09"
NA["C19"] = "test discovery iterates a HashMap of JIT entry points and calls machine code; CLI maps process results to exit codes; nothing to make symbolic"
