HOOK_COMMITS = ["1f23ce1", "19a6366"]
NOTES = ("Solver-based checking of the real code: Kani/CBMC harnesses over roto's Rust (engine K), translation validation of the "
         "emitted cranelift IR with symbolic arguments in z3 (engine T), symbolic interpretation of MIR slices of the LIR evaluator "
         "(engine M). See DESIGN.md. Exit 2 = inconclusive (timeout, OOM, vacuous harness, non-reproducing counterexample) and is "
         "never reported as 'held'.")
ENGINES = [
    {"name": "K", "path": "/verif/kani", "serves_properties": ["C02", "C05"],
     "kind_free_text": "Kani 0.68 / CBMC 6.11 proof harnesses (external crate, path dependency on /repo, cfg nlnetlabs_roto_verif), "
                       "one process per harness, native replay twin + Miri for counterexamples"},
]
UNDER_CONSTRUCTION = "check under construction in this session (see DESIGN.md section 5); not claimed until its command exists"

claim("C02", "model_checking",
      "Bounded model checking (CBMC via Kani) of the layout arithmetic behind every field/payload offset: for all field sizes <= 2^16 and "
      "alignments <= 16, one inductive LayoutBuilder step from an arbitrary reachable state, union, concat, offset_by.",
      "Trusts rustc/Kani MIR->GOTO, CBMC, and the bounds stated in the evidence; the generated-code half (copy/mutate/compare of "
      "aggregates) is decided by engine T when built.",
      "Kani/CBMC bounded model checking of runtime/layout.rs with symbolic sizes and alignments", "K", "DESIGN.md 5/C02")
claim("C05", "model_checking",
      "Bounded model checking (CBMC via Kani), one harness per instantiation of Option/Result/Verdict: for all payload values the repr(u8) "
      "mirror has tag and payload where roto's enum layout rule puts them (both directions) and untransform(transform(v)) == v.",
      "Instantiation list is the bound; machine calling convention and String/List contents outside the claim.",
      "Kani/CBMC bounded model checking of value/{option,result,verdict}.rs + Value impls against runtime/layout.rs", "K", "DESIGN.md 5/C05")
for p in ["C01", "C03", "C06", "C08", "C09", "C10", "C15", "C16", "C17", "C20"]:
    NA[p] = UNDER_CONSTRUCTION
NA["C04"] = "signature gate compares a compile-time Rust type with a Roto type through TypeId-keyed hash maps; no value-level kernel CBMC can execute (probe: 30 min without leaving symex); only enumeration of instantiations would remain"
NA["C07"] = "acceptance is the control flow of the 5 kLOC inference engine over BTreeMap scope graphs/hash maps/global interner, beyond CBMC (2-insert BTreeMap = 15 GB); compiling ill-typed mutants would be testing, not solving"
NA["C11"] = "state is mmap'ed JIT memory, Arc counts and drop order across FFI; histories of API calls, nothing value-level to make symbolic; CBMC cannot model the JIT"
NA["C12"] = "Kani/CBMC have no threads; racy state only reachable by executing JIT-compiled machine code; Send/Sync half is a type-system fact"
NA["C13"] = "name resolution lives in ScopeGraph (BTreeMap), import fix-point and file discovery inside the type checker: out of CBMC's reach and without symbolic inputs"
NA["C14"] = "ordering kernel is tarjan over BTreeMap<V,BTreeSet<V>> (3-node graphs did not finish in 30 min); property quantifies over dependency graphs only"
NA["C18"] = "Rt::add drives the scope graph and interner over closures/TypeIds; its only value-level kernel (name lexing) is covered under C06/C09"
NA["C19"] = "test discovery iterates a HashMap of JIT entry points and calls machine code; CLI maps process results to exit codes; nothing to make symbolic"
