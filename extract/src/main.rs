//! Extractor for engine T: links the real roto (hooks on), compiles scripts
//! with the real compiler and
//!   dump  <out-dir> <script>...      -> <out-dir>/<stem>.json : compile result, emitted CLIF per item, data, symbols
//!   run   <script> <fn> <sig> <arg>...  -> one JSON line: return bits, host-call/ownership event log
//!   run-child <same as run>          -> same, in a child process; reports its exit status / signal
//! Arguments and results are raw bit patterns in hex (u64).
use roto::{library, FileTree, NoCtx, Runtime, Val, Verdict};
use std::sync::atomic::{AtomicU64, Ordering};
use std::sync::Mutex;

/// counting allocator: lets a replay observe leaked heap objects (strings are plain `Arc<str>`, their drops are not logged)
struct Counting;
static LIVE_ALLOCS: std::sync::atomic::AtomicI64 = std::sync::atomic::AtomicI64::new(0);
unsafe impl std::alloc::GlobalAlloc for Counting {
    unsafe fn alloc(&self, l: std::alloc::Layout) -> *mut u8 {
        LIVE_ALLOCS.fetch_add(1, Ordering::SeqCst);
        unsafe { std::alloc::System.alloc(l) }
    }
    unsafe fn dealloc(&self, p: *mut u8, l: std::alloc::Layout) {
        LIVE_ALLOCS.fetch_sub(1, Ordering::SeqCst);
        unsafe { std::alloc::System.dealloc(p, l) }
    }
}
#[global_allocator]
static GLOBAL: Counting = Counting;

static EVENTS: Mutex<Vec<String>> = Mutex::new(Vec::new());
static NEXT_ID: AtomicU64 = AtomicU64::new(1);

fn ev(s: String) {
    EVENTS.lock().unwrap().push(s);
}

/// drop-tracked host value: every live instance has a unique id
pub struct Tracked {
    id: u64,
    val: i32,
}
impl Tracked {
    fn new(val: i32) -> Self {
        let id = NEXT_ID.fetch_add(1, Ordering::SeqCst);
        ev(format!("create {id} {val}"));
        Tracked { id, val }
    }
}
impl Clone for Tracked {
    fn clone(&self) -> Self {
        let id = NEXT_ID.fetch_add(1, Ordering::SeqCst);
        ev(format!("clone {} {id}", self.id));
        Tracked { id, val: self.val }
    }
}
impl Drop for Tracked {
    fn drop(&mut self) {
        ev(format!("drop {}", self.id));
    }
}
impl PartialEq for Tracked {
    fn eq(&self, o: &Self) -> bool {
        ev(format!("eq {} {}", self.id, o.id));
        self.val == o.val
    }
}

#[derive(Clone, Copy, PartialEq)]
pub struct Tri([u8; 3]);

mod bits {
    pub fn bool(x: bool) -> u64 { x as u64 }
    pub fn u8(x: u8) -> u64 { x as u64 }
    pub fn u16(x: u16) -> u64 { x as u64 }
    pub fn u32(x: u32) -> u64 { x as u64 }
    pub fn u64(x: u64) -> u64 { x }
    pub fn i8(x: i8) -> u64 { x as u8 as u64 }
    pub fn i16(x: i16) -> u64 { x as u16 as u64 }
    pub fn i32(x: i32) -> u64 { x as u32 as u64 }
    pub fn i64(x: i64) -> u64 { x as u64 }
    pub fn f32(x: f32) -> u64 { x.to_bits() as u64 }
    pub fn f64(x: f64) -> u64 { x.to_bits() }
    pub fn char(x: char) -> u64 { x as u32 as u64 }
}

fn runtime() -> Runtime<NoCtx> {
    let lib = library! {
        /// drop-tracked host type
        #[clone] type Tracked = Val<Tracked>;
        /// 3-byte copy type
        #[copy] type Tri = Val<Tri>;
        /// zero-sized clone type
        #[clone] type Zst = Val<Zst>;

        /// registered constants (engine T reads their stored bytes through hook H2)
        const K_U8: u8 = 0xA5;
        const K_I16: i16 = -2;
        const K_U32: u32 = 0xDEADBEEF;
        const K_I64: i64 = -0x1122334455667788;
        const K_BOOL: bool = true;
        const K_OPT_U32: Option<u32> = Some(5);
        const K_OPT_NONE_U64: Option<u64> = None;
        const K_OPT_U8: Option<u8> = Some(200);
        const K_VER_U8_U64: Verdict<u8, u64> = Verdict::Accept(7);

        fn mk(v: i32) -> Val<Tracked> { ev(format!("call mk {:#x}", v as u32)); Val(Tracked::new(v)) }
        fn eat(t: Val<Tracked>) { ev(format!("call eat {} {:#x}", t.id, t.val as u32)); }
        fn peek(t: Val<Tracked>) -> i32 { ev(format!("call peek {} {:#x}", t.id, t.val as u32)); t.val }
        fn tri(a: u8, b: u8, c: u8) -> Val<Tri> { Val(Tri([a, b, c])) }
        fn tri_get(t: Val<Tri>, i: u8) -> u8 { t.0.0[(i % 3) as usize] }

        fn emit_str(s: roto::RotoString) { ev(format!("emit_str {:?}", &*s)); }
        fn pure_str(s: roto::RotoString) -> roto::RotoString { ev(format!("pure_str {:?}", &*s)); s }
        fn emit_bool(x: bool) { ev(format!("emit_bool {:#x}", x as u64)); }
        fn emit_u8(x: u8) { ev(format!("emit_u8 {:#x}", x)); }
        fn emit_u16(x: u16) { ev(format!("emit_u16 {:#x}", x)); }
        fn emit_u32(x: u32) { ev(format!("emit_u32 {:#x}", x)); }
        fn emit_u64(x: u64) { ev(format!("emit_u64 {:#x}", x)); }
        fn emit_i8(x: i8) { ev(format!("emit_i8 {:#x}", x as u8)); }
        fn emit_i16(x: i16) { ev(format!("emit_i16 {:#x}", x as u16)); }
        fn emit_i32(x: i32) { ev(format!("emit_i32 {:#x}", x as u32)); }
        fn emit_i64(x: i64) { ev(format!("emit_i64 {:#x}", x as u64)); }
        fn emit_f32(x: f32) { ev(format!("emit_f32 {:#x}", x.to_bits())); }
        fn emit_f64(x: f64) { ev(format!("emit_f64 {:#x}", x.to_bits())); }
        fn emit_char(x: char) { ev(format!("emit_char {:#x}", x as u32)); }

        fn pure_bool(x: bool) -> bool { ev(format!("pure_bool {:#x}", x as u64)); x }
        fn pure_u8(x: u8) -> u8 { ev(format!("pure_u8 {:#x}", x)); x }
        fn pure_u16(x: u16) -> u16 { ev(format!("pure_u16 {:#x}", x)); x }
        fn pure_u32(x: u32) -> u32 { ev(format!("pure_u32 {:#x}", x)); x }
        fn pure_u64(x: u64) -> u64 { ev(format!("pure_u64 {:#x}", x)); x }
        fn pure_i8(x: i8) -> i8 { ev(format!("pure_i8 {:#x}", x as u8)); x }
        fn pure_i16(x: i16) -> i16 { ev(format!("pure_i16 {:#x}", x as u16)); x }
        fn pure_i32(x: i32) -> i32 { ev(format!("pure_i32 {:#x}", x as u32)); x }
        fn pure_i64(x: i64) -> i64 { ev(format!("pure_i64 {:#x}", x as u64)); x }
        fn pure_f32(x: f32) -> f32 { ev(format!("pure_f32 {:#x}", x.to_bits())); x }
        fn pure_f64(x: f64) -> f64 { ev(format!("pure_f64 {:#x}", x.to_bits())); x }
        fn pure_char(x: char) -> char { ev(format!("pure_char {:#x}", x as u32)); x }

        /// seven arguments of mixed width (argument position / register assignment)
        // zero-sized `()` parameters take no machine argument: the ones after them must still arrive
        fn after_zst(_z: Val<Zst>, x: u32) -> u32 { ev(format!("after_zst {:#x}", x)); x }
        fn after_unit(_u: (), x: u32) -> u32 { ev(format!("after_unit {:#x}", x)); x }
        fn around_unit(x: u32, _u: (), y: u32) -> u32 { ev(format!("around_unit {:#x} {:#x}", x, y)); x.wrapping_sub(y) }
        // registered functions that build an Option / Result on the Rust side
        fn opt_of(x: u32) -> Option<u32> { ev(format!("opt_of {:#x}", x)); if x & 1 == 1 { Some(x ^ 0x5A5A) } else { None } }
        fn res_of(x: u32) -> Result<u32, i32> { ev(format!("res_of {:#x}", x)); if x < 0x8000_0000 { Ok(x.wrapping_add(7)) } else { Err((x as i32).wrapping_neg()) } }
        // registered methods with a visible effect: `recv.msub(y)` logs receiver and argument and returns recv - y (wrapping)
        impl i32 { fn msub(self, y: i32) -> i32 { ev(format!("msub_i32 {:#x} {:#x}", self as u32, y as u32)); self.wrapping_sub(y) } }
        impl u8 { fn msub(self, y: u8) -> u8 { ev(format!("msub_u8 {:#x} {:#x}", self, y)); self.wrapping_sub(y) } }
        impl i64 { fn msub(self, y: i64) -> i64 { ev(format!("msub_i64 {:#x} {:#x}", self as u64, y as u64)); self.wrapping_sub(y) } }
        impl u16 { fn msub(self, y: u16) -> u16 { ev(format!("msub_u16 {:#x} {:#x}", self, y)); self.wrapping_sub(y) } }
        fn emit7(a: u8, b: i64, c: u16, d: i32, e: u64, f: i8, g: u32) {
            ev(format!("emit7 {:#x} {:#x} {:#x} {:#x} {:#x} {:#x} {:#x}", a, b as u64, c, d as u32, e, f as u8, g));
        }
    };
    Runtime::from_lib(lib).unwrap()
}

fn json_str(s: &str) -> String {
    let mut o = String::from("\"");
    for c in s.chars() {
        match c {
            '"' => o.push_str("\\\""),
            '\\' => o.push_str("\\\\"),
            '\n' => o.push_str("\\n"),
            '\t' => o.push_str("\\t"),
            '\r' => o.push_str("\\r"),
            c if (c as u32) < 0x20 => o.push_str(&format!("\\u{:04x}", c as u32)),
            c => o.push(c),
        }
    }
    o.push('"');
    o
}

fn dump_one(rt: &Runtime<NoCtx>, path: &str, out_dir: &str) {
    use roto::verif_api::capture;
    let src = std::fs::read_to_string(path).unwrap();
    let stem = std::path::Path::new(path).file_stem().unwrap().to_str().unwrap().to_string();
    capture::reset();
    let res = std::panic::catch_unwind(std::panic::AssertUnwindSafe(|| {
        FileTree::test_file(&format!("{stem}.roto"), &src, 0).compile(rt)
    }));
    let mut o = String::from("{");
    o.push_str(&format!("\"script\": {}, ", json_str(path)));
    match &res {
        Ok(Ok(_)) => o.push_str("\"compile\": \"ok\", "),
        Ok(Err(e)) => o.push_str(&format!("\"compile\": \"error\", \"report\": {}, ", json_str(&format!("{e}")))),
        Err(_) => o.push_str("\"compile\": \"panic\", "),
    }
    o.push_str("\"items\": [");
    let clif = capture::CLIF.lock().unwrap();
    for (i, (n, t)) in clif.iter().enumerate() {
        if i > 0 { o.push_str(", "); }
        o.push_str(&format!("{{\"name\": {}, \"clif\": {}}}", json_str(n), json_str(t)));
    }
    o.push_str("], \"lir\": {");
    let lir = capture::LIR.lock().unwrap();
    for (i, (n, ins)) in lir.iter().enumerate() {
        if i > 0 { o.push_str(", "); }
        o.push_str(&format!("{}: [", json_str(n)));
        for (j, x) in ins.iter().enumerate() {
            if j > 0 { o.push_str(", "); }
            o.push_str(&json_str(x));
        }
        o.push(']');
    }
    o.push_str("}, \"lir_blocks\": {");
    let lb = capture::LIR_BLOCKS.lock().unwrap();
    for (i, (n, blocks)) in lb.iter().enumerate() {
        if i > 0 { o.push_str(", "); }
        o.push_str(&format!("{}: [", json_str(n)));
        for (j, (label, ins)) in blocks.iter().enumerate() {
            if j > 0 { o.push_str(", "); }
            o.push_str(&format!("[{}, [", json_str(label)));
            for (k, x) in ins.iter().enumerate() {
                if k > 0 { o.push_str(", "); }
                o.push_str(&json_str(x));
            }
            o.push_str("]]");
        }
        o.push(']');
    }
    o.push_str("}, \"lir_meta\": {");
    let lm = capture::LIR_META.lock().unwrap();
    for (i, (n, lines)) in lm.iter().enumerate() {
        if i > 0 { o.push_str(", "); }
        o.push_str(&format!("{}: [", json_str(n)));
        for (j, x) in lines.iter().enumerate() {
            if j > 0 { o.push_str(", "); }
            o.push_str(&json_str(x));
        }
        o.push(']');
    }
    o.push_str("}, \"data\": {");
    let data = capture::DATA.lock().unwrap();
    for (i, (id, b)) in data.iter().enumerate() {
        if i > 0 { o.push_str(", "); }
        let hex: String = b.iter().map(|x| format!("{x:02x}")).collect();
        o.push_str(&format!("\"{id}\": \"{hex}\""));
    }
    o.push_str("}, \"symbols\": [");
    let syms = capture::SYMBOLS.lock().unwrap();
    for (i, (a, k, d)) in syms.iter().enumerate() {
        if i > 0 { o.push_str(", "); }
        o.push_str(&format!("[{a}, {}, {}]", json_str(k), json_str(d)));
    }
    o.push_str("], \"constants\": [");
    let consts = capture::CONSTANTS.lock().unwrap();
    for (i, (a, n, b)) in consts.iter().enumerate() {
        if i > 0 { o.push_str(", "); }
        let hex: String = b.iter().map(|x| format!("{x:02x}")).collect();
        o.push_str(&format!("[{a}, {}, \"{hex}\"]", json_str(n)));
    }
    o.push_str("]}");
    std::fs::write(format!("{out_dir}/{stem}.json"), o).unwrap();
    // the package (and the JIT memory) is dropped here
}

trait Bits: Sized {
    fn from_bits(b: u64) -> Self;
    fn to_json(&self) -> String;
}
macro_rules! bits_int { ($($t:ty),*) => {$(impl Bits for $t {
    fn from_bits(b: u64) -> Self { b as $t }
    fn to_json(&self) -> String { format!("\"{:#x}\"", *self as u64 & (u64::MAX >> (64 - 8 * std::mem::size_of::<$t>()))) }
})*}; }
bits_int!(u8, u16, u32, u64, i8, i16, i32, i64);
impl Bits for bool {
    fn from_bits(b: u64) -> Self { b & 1 == 1 }
    fn to_json(&self) -> String { format!("\"{:#x}\"", *self as u64) }
}
impl Bits for char {
    fn from_bits(b: u64) -> Self { char::from_u32(b as u32).unwrap_or('\0') }
    fn to_json(&self) -> String { format!("\"{:#x}\"", *self as u32) }
}
impl Bits for f32 {
    fn from_bits(b: u64) -> Self { f32::from_bits(b as u32) }
    fn to_json(&self) -> String { format!("\"{:#x}\"", self.to_bits()) }
}
impl Bits for f64 {
    fn from_bits(b: u64) -> Self { f64::from_bits(b) }
    fn to_json(&self) -> String { format!("\"{:#x}\"", self.to_bits()) }
}
impl Bits for () {
    fn from_bits(_: u64) -> Self {}
    fn to_json(&self) -> String { "\"unit\"".into() }
}
impl<T: Bits> Bits for Option<T> {
    fn from_bits(b: u64) -> Self { if b >> 63 == 1 { None } else { Some(T::from_bits(b)) } }
    fn to_json(&self) -> String {
        match self { Some(x) => format!("{{\"Some\": {}}}", x.to_json()), None => "\"None\"".into() }
    }
}
#[derive(Clone, Debug, PartialEq)]
pub struct Zst;

impl Bits for Val<Zst> {
    fn from_bits(_: u64) -> Self { Val(Zst) }
    fn to_json(&self) -> String { "\"zst\"".into() }
}

impl<A: Bits, R: Bits> Bits for Verdict<A, R> {
    fn from_bits(_: u64) -> Self { unimplemented!() }
    fn to_json(&self) -> String {
        match self {
            Verdict::Accept(x) => format!("{{\"Accept\": {}}}", x.to_json()),
            Verdict::Reject(x) => format!("{{\"Reject\": {}}}", x.to_json()),
        }
    }
}

#[allow(dead_code)]
fn finish(ret: String) {
    finish_with(ret, 0)
}

fn finish_with(ret: String, alloc_delta: i64) {
    let evs = EVENTS.lock().unwrap();
    let mut o = format!("{{\"ret\": {ret}, \"alloc_delta\": {alloc_delta}, \"events\": [");
    for (i, e) in evs.iter().enumerate() {
        if i > 0 { o.push_str(", "); }
        o.push_str(&json_str(e));
    }
    o.push_str("]}");
    println!("{o}");
}

macro_rules! sigs {
    ($pkg:ident, $name:ident, $sig:ident, $args:ident; $( $s:expr => ($($a:ty),*) -> $r:ty ;)*) => {
        $( if $sig == $s {
            let f = match $pkg.get_function::<fn($($a),*) -> $r>($name) {
                Ok(f) => f,
                Err(e) => { println!("{{\"error\": {}}}", json_str(&format!("get_function: {e}"))); return; }
            };
            if std::env::var("VERIF_LEAKCHECK").is_ok() {
                // warm-up call (one-time allocations), then measure a second call
                #[allow(unused_mut, unused_variables)]
                let mut it = $args.iter();
                let r = f.call($(<$a as Bits>::from_bits(*it.next().expect("missing argument"))),*);
                drop(r);
                EVENTS.lock().unwrap().clear();
                EVENTS.lock().unwrap().shrink_to_fit();
            }
            let before = LIVE_ALLOCS.load(Ordering::SeqCst);
            #[allow(unused_mut, unused_variables)]
            let mut it = $args.iter();
            let r = f.call($(<$a as Bits>::from_bits(*it.next().expect("missing argument"))),*);
            let j = r.to_json();
            drop(r);
            let evs: Vec<String> = std::mem::take(&mut *EVENTS.lock().unwrap());
            let after = LIVE_ALLOCS.load(Ordering::SeqCst) - evs.iter().filter(|e| e.capacity() > 0).count() as i64 - (evs.capacity() > 0) as i64 - (j.capacity() > 0) as i64;
            *EVENTS.lock().unwrap() = evs;
            finish_with(j, after - before);
            return;
        } )*
        println!("{{\"error\": \"unknown signature {}\"}}", $sig);
    };
}

macro_rules! per_type {
    ($pkg:ident, $name:ident, $sig:ident, $args:ident; $($t:ident),*) => {
        sigs!($pkg, $name, $sig, $args;
            "->unit" => () -> ();
            "->i32" => () -> i32;
            "->bool" => () -> bool;
            "->u64" => () -> u64;
            "i32->unit" => (i32) -> ();
            "i32,i32->unit" => (i32, i32) -> ();
            "bool,bool->bool" => (bool, bool) -> bool;
            "bool,bool,bool->bool" => (bool, bool, bool) -> bool;
            "bool->bool" => (bool) -> bool;
            "u8,i64,bool->i64" => (u8, i64, bool) -> i64;
            "Zst,u32->u32" => (Val<Zst>, u32) -> u32;
            "i32->opt_i32" => (i32) -> Option<i32>;
            "i32,i32->opt_i32" => (i32, i32) -> Option<i32>;
            "opt_i32->i32" => (Option<i32>) -> i32;
            "opt_i32,i32->i32" => (Option<i32>, i32) -> i32;
            "u8->opt_u8" => (u8) -> Option<u8>;
            "u64->opt_u64" => (u64) -> Option<u64>;
            "i32,i32->verdict_i32_i32" => (i32, i32) -> Verdict<i32, i32>;
            "i32->verdict_i32_unit" => (i32) -> Verdict<i32, ()>;
            "u8,u8->verdict_u8_u64" => (u8, u8) -> Verdict<u8, u64>;
            $(
                concat!(stringify!($t), "->", stringify!($t)) => ($t) -> $t;
                concat!(stringify!($t), ",", stringify!($t), "->", stringify!($t)) => ($t, $t) -> $t;
                concat!(stringify!($t), ",", stringify!($t), ",", stringify!($t), "->", stringify!($t)) => ($t, $t, $t) -> $t;
                concat!(stringify!($t), ",", stringify!($t), "->bool") => ($t, $t) -> bool;
                concat!(stringify!($t), ",", stringify!($t), ",", stringify!($t), "->bool") => ($t, $t, $t) -> bool;
                concat!("bool,", stringify!($t), ",", stringify!($t), "->", stringify!($t)) => (bool, $t, $t) -> $t;
                concat!(stringify!($t), "->unit") => ($t) -> ();
                concat!(stringify!($t), ",", stringify!($t), "->unit") => ($t, $t) -> ();
            )*
        )
    };
}

fn run(script: &str, name: &str, sig: &str, args: &[u64]) {
    let rt = runtime();
    let src = std::fs::read_to_string(script).unwrap();
    let mut pkg = match FileTree::test_file("s.roto", &src, 0).compile(&rt) {
        Ok(p) => p,
        Err(e) => {
            println!("{{\"error\": {}}}", json_str(&format!("compile: {e}")));
            return;
        }
    };
    EVENTS.lock().unwrap().clear();
    per_type!(pkg, name, sig, args; u8, u16, u32, u64, i8, i16, i32, i64, f32, f64, char);
}

/// run `main` of a script through the real LIR evaluator: eval <script> <types "u8,u8"> <hex args>
fn eval_cmd(script: &str, types: &str, args: &[u64]) {
    use roto::verif_api::IrValue;
    let rt = runtime();
    let src = std::fs::read_to_string(script).unwrap();
    let mut vals = Vec::new();
    for (t, &b) in types.split(',').filter(|t| !t.is_empty()).zip(args) {
        vals.push(match t {
            "bool" => IrValue::Bool(b & 1 == 1),
            "u8" => IrValue::U8(b as u8),
            "u16" => IrValue::U16(b as u16),
            "u32" => IrValue::U32(b as u32),
            "u64" => IrValue::U64(b),
            "i8" => IrValue::I8(b as i8),
            "i16" => IrValue::I16(b as i16),
            "i32" => IrValue::I32(b as i32),
            "i64" => IrValue::I64(b as i64),
            "f32" => IrValue::F32(f32::from_bits(b as u32)),
            "f64" => IrValue::F64(f64::from_bits(b)),
            "char" => IrValue::Char(char::from_u32(b as u32).unwrap_or('\0')),
            _ => { println!("{{\"error\": \"type {t}\"}}"); return; }
        });
    }
    let r = std::panic::catch_unwind(std::panic::AssertUnwindSafe(|| {
        roto::verif_api::eval_main(&rt, FileTree::test_file("s.roto", &src, 0), vals)
    }));
    match r {
        Err(_) => println!("{{\"eval\": \"loud-stop\"}}"),
        Ok(Err(e)) => println!("{{\"error\": {}}}", json_str(&e)),
        Ok(Ok(None)) => println!("{{\"eval\": \"none\"}}"),
        Ok(Ok(Some(v))) => {
            let bits: u64 = match v {
                IrValue::Bool(x) => x as u64,
                IrValue::U8(x) => x as u64,
                IrValue::U16(x) => x as u64,
                IrValue::U32(x) => x as u64,
                IrValue::U64(x) => x,
                IrValue::I8(x) => x as u8 as u64,
                IrValue::I16(x) => x as u16 as u64,
                IrValue::I32(x) => x as u32 as u64,
                IrValue::I64(x) => x as u64,
                IrValue::F32(x) => x.to_bits() as u64,
                IrValue::F64(x) => x.to_bits(),
                IrValue::Char(x) => x as u32 as u64,
                _ => { println!("{{\"eval\": \"other\"}}"); return; }
            };
            println!("{{\"eval\": \"{:#x}\"}}", bits);
        }
    }
}

fn main() {
    let a: Vec<String> = std::env::args().collect();
    match a.get(1).map(|s| s.as_str()) {
        Some("dump") => {
            let rt = runtime();
            for p in &a[3..] {
                dump_one(&rt, p, &a[2]);
            }
        }
        Some("run") => {
            let args: Vec<u64> = a[5..].iter().map(|x| u64::from_str_radix(x.trim_start_matches("0x"), 16).unwrap()).collect();
            run(&a[2], &a[3], &a[4], &args);
        }
        Some("eval") => {
            let args: Vec<u64> = a[4..].iter().map(|x| u64::from_str_radix(x.trim_start_matches("0x"), 16).unwrap()).collect();
            eval_cmd(&a[2], &a[3], &args);
        }
        Some("run-child") => {
            let out = std::process::Command::new(std::env::current_exe().unwrap())
                .arg("run").args(&a[2..]).output().unwrap();
            use std::os::unix::process::ExitStatusExt;
            let stdout = String::from_utf8_lossy(&out.stdout);
            let line = stdout.lines().last().unwrap_or("");
            println!(
                "{{\"exit\": {}, \"signal\": {}, \"out\": {}, \"stderr_tail\": {}}}",
                out.status.code().map(|c| c.to_string()).unwrap_or("null".into()),
                out.status.signal().map(|c| c.to_string()).unwrap_or("null".into()),
                if line.starts_with('{') { line.to_string() } else { "null".into() },
                json_str(&String::from_utf8_lossy(&out.stderr).chars().rev().take(400).collect::<String>().chars().rev().collect::<String>()),
            );
        }
        _ => {
            eprintln!("usage: extract dump <out-dir> <script>... | run <script> <fn> <sig> <hex>... | run-child ...");
            std::process::exit(2);
        }
    }
}
